"""C06 Connections are never shared across origins (E2 step contracts)"""
import mirrun
from kanirun import H

FACADE = True
FUNCS = ["client::pool::Pool::checkout", "client::pool::PoolInner::{push,pop}", "client::pool::checkout::register_connected", "<UriKey as TryFrom<&request::Parts>>::try_from", "client::pool::key::TokenMap::insert"]
BOUNDS = "every pool step with a second origin populated (idle entry, waiter, in-flight marker); key extraction for every URI form; TokenMap::insert for 3 symbolic 64-bit keys from any counter value incl. the wrap-around at usize::MAX"
OUTSIDE = "Scheme/Authority equality and hashing inside the http crate (case-insensitivity, port significance) are the http crate's; that connect_to hands the same Parts to key and connector (two-line data flow, read off the source)"
ASSUMPTIONS = ["HashMap/HashSet/VecDeque/Vec, tokio oneshot, parking_lot Mutex, Arc/Weak and Instant are replaced by contract-level models; the mock connection reports symbolic openness and scripted readiness",
               "a connection whose sender is still busy does not report open (HttpConnection::is_open is SendRequest::is_ready)", "single-threaded: every step runs with the pool mutex available; re-locking a held mutex is reported as a deadlock"]
TRUSTED = ["mirsym MIR parser/executor", "collection / channel / mutex / clock models (mirsym/pool_models.py)", "z3 5.1"]


def harnesses(tier, seed):
    hs = []
    return hs


def extra(tier, seed, log):
    res, table = mirrun.run("C06", tier, seed, log)
    extra.model_table = table
    return res
