"""C12 With TLS configured, https/wss is never sent in the clear (E2: the crate's own decisions)."""
import mirrun

FACADE = False
FUNCS = ["<TlsTransport<T> as Service<request::Parts>>::call", "<TlsTransportWrapper<T> as Service<request::Parts>>::call", "transport::tls::future::TlsConnectionFuture::{new,error}",
         "transport::future::TransportBraidFuture::{from_plain,from_tls}", "client::conn::stream::Stream::tls", "client::conn::stream::tls::TlsStream::new"]
BOUNDS = ("every URI form; scheme in {none,http,https,ws,wss,ftp}; hosts: reg-names <= 3 (quick) / 5 (thorough) characters over [a-z0-9.-], bracketed IPv6 literals of the same length; "
          "TLS configured yes/no; rustls' ServerName acceptance modelled exactly for DNS names, IPv4 and IPv6 literals <= 12 characters")
OUTSIDE = ("rustls/tokio-rustls actually encrypting, offering the name as SNI and checking the certificate against it; ALPN; the poll loop of TlsConnectionFuture "
           "(pin-projected state machine: its single construction site of the TLS stream is covered by running Stream::tls on the stored domain)")
ASSUMPTIONS = ["library calls replaced by the model table (mirsym/models.py); ServerName::try_from validated natively on sample hosts (native replay family tls_connect)", "no userinfo in authorities"]
TRUSTED = ["mirsym MIR parser/executor", "model table", "z3 5.1, cvc5 1.0"]


def harnesses(tier, seed):
    return []


def extra(tier, seed, log):
    res, table = mirrun.run("C12", tier, seed, log)
    extra.model_table = table
    return res
