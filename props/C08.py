"""C08 Protocol detection is independent of fragmentation (E1: Kani, inductive over reads)."""
from kanirun import H

FACADE = False
FUNCS = ["server::conn::auto::ReadVersion::poll", "server::conn::auto::ReadVersion::new", "rewind::Rewind::new",
         "rewind::Rewind::poll_read", "rewind::put_slice", "rewind::remaining"]
BOUNDS = ("24-byte sniff window (the code's own constant); state invariant I(f): f<24 bytes consumed, all equal to the preface, undecided; "
          "per instance the consumed count f and the chunk sizes (k1[,k2]) are concrete, all byte VALUES are symbolic; "
          "thorough = every (f,k) with f in 0..24, k in 0..=24-f for one read per poll (300), a grid of two-reads-per-poll, error/pending tails; "
          "Rewind: prefix length p in 0..=24, destination room r in {0,1,p-1,p,p+1,32}; unwind 26 with unwinding assertions")
OUTSIDE = ("hyper answering identically once it is handed identical bytes; reads that return more than the 24-byte window has room for "
           "(impossible through ReadBufCursor); wake-ups (the harness re-polls explicitly)")
ASSUMPTIONS = ["induction: base (new() satisfies I(0)) + step (from any I(f), any chunking of one poll) cover any number of reads/pending results",
               "the stream honours the hyper::rt::Read contract (advances the cursor by exactly the bytes it wrote)"]
TIMEOUT = {"quick": 240, "thorough": 900}


def step(f, n, k1, k2, tail, tier):
    return H(name=f"c08_step_f{f}_n{n}_{k1}_{k2}_t{tail}", module="auto", call=f"c08_step({f},{n},{k1},{k2},{tail})", unwind=26,
             tier=tier, family="c08_step", desc={"consumed_before": f, "reads_in_poll": n, "chunk_sizes": [k1, k2][:n], "then": "Pending" if tail == 1 else "Err"},
             funcs=FUNCS[:3])


def harnesses(tier, seed):
    hs = []
    seen = set()

    def add(h):
        if h.name not in seen:
            seen.add(h.name)
            hs.append(h)

    add(H(name="c08_base", module="auto", call="c08_base()", unwind=26, family="c08_base", nontrivial=False, funcs=FUNCS[1:2]))
    grid_f = [0, 1, 2, 17, 18, 23]
    # rotate which interior f values the quick tier adds, by seed
    interior = [f for f in range(3, 23) if f not in grid_f]
    extra_f = [interior[(seed * 3 + i * 7) % len(interior)] for i in range(2)]
    for f in range(24):
        rest = 24 - f
        for k in range(0, rest + 1):
            quick = (f in grid_f or f in extra_f) and k in (0, 1, 2, rest - 1, rest)
            add(step(f, 1, k, 0, 1, "quick" if quick else "thorough"))
    # nothing read: immediately pending / error
    for f in grid_f:
        add(step(f, 0, 0, 0, 1, "quick" if f in (0, 17) else "thorough"))
        add(step(f, 0, 0, 0, 2, "quick" if f in (0, 17) else "thorough"))
    # error after a matching partial chunk
    for f, k in [(0, 5), (3, 1), (10, 13), (22, 1)]:
        add(step(f, 1, k, 0, 2, "quick" if f in (0, 22) else "thorough"))
    # two reads in one poll
    for f in [0, 1, 5, 12, 20]:
        rest = 24 - f
        for k1 in sorted({1, 2, rest // 2, rest - 1}):
            if not (0 < k1 < rest):
                continue
            for k2 in sorted({0, 1, rest - k1 - 1, rest - k1}):
                if k2 < 0 or k1 + k2 > rest:
                    continue
                quick = f in (0, 12) and k1 in (1, rest - 1) 
                add(step(f, 2, k1, k2, 1, "quick" if quick else "thorough"))
    # Rewind::poll_read
    for p in range(0, 25):
        for r in sorted({0, 1, p - 1, p, p + 1, 32}):
            if r < 0 or r > 32:
                continue
            quick = p in (0, 1, 5, 24) and r in (0, 1, p - 1, p, p + 1, 32)
            for k, wp in ([(0, 0), (1, 1), (8, 0), (8, 1)] if p == 0 else [(3, 1)]):
                add(H(name=f"c08_rewind_read_p{p}_r{r}_k{k}_w{wp}", module="rewind", call=f"rewind_read({p},{r},{k},{'true' if wp else 'false'})", unwind=34, tier="quick" if quick else "thorough",
                      family="rewind_read", desc={"prefix_len": p, "dest_room": r, "inner": f"symbolic choice of {{{k} bytes | Pending | Err}}"}, funcs=FUNCS[3:]))
    return hs
