"""C17 No request value makes the client panic (E2: per conversion)."""
import mirrun

FACADE = False
FUNCS = ["<HttpProtocol as From<http::Version>>::from", "service::http::http1::{check_http1_request,authority_form,absolute_form,origin_form}", "service::host::set_host_header",
         "<UriKey as TryFrom<&request::Parts>>::try_from", "client::conn::transport::tcp::get_host_and_port", "client::conn::stream::tls::TlsStream::new (under C12)"]
BOUNDS = "all five http::Version constants; every URI form (absolute, authority-form, origin-form, asterisk) with hosts <= 6 chars; every method incl. CONNECT; MIR compiled with debug assertions and overflow checks ON"
OUTSIDE = "panics inside hyper/h2/rustls/tokio; panics in spawned connection tasks; request bodies; header values beyond Host"
ASSUMPTIONS = ["library calls replaced by the model table (mirsym/models.py)", "URIs are what http::Uri can hold (uri/mod.rs invariants), no userinfo"]
TRUSTED = ["mirsym MIR parser/executor", "model table", "z3 5.1, cvc5 1.0"]


def harnesses(tier, seed):
    return []


def extra(tier, seed, log):
    res, table = mirrun.run("C17", tier, seed, log)
    extra.model_table = table
    return res
