"""C13 The request put on the wire matches the connection's protocol (E2: mirsym over rustc MIR)."""
import mirrun

FACADE = False
FUNCS = ["service::host::{set_host_header,get_non_default_port,is_schema_secure}", "<SetHostHeader<S> as Service<Request<B>>>::call", "<SetHostHeader<S> as Service<ExecuteRequest<C,B>>>::call",
         "service::http::http1::{check_http1_request,origin_form,authority_form,absolute_form}", "service::http::http2::check_http2_request", "service::client::ExecuteRequest::{connection,request,request_mut}"]
BOUNDS = ("abstract well-formed URIs: scheme in {none,http,https,ws,wss,ftp}, host <= 6 chars over [a-z0-9.-] or bracketed IPv6 <= 8 chars, port any u16 or absent, path_and_query <= 4 chars; "
          "all five http::Version constants for request and connection; method symbolic; presence of Host and 6 other headers enumerated; loops unrolled <= 8 with unwinding obligation")
OUTSIDE = ("what hyper serialises from the rewritten request; ALPN-driven protocol choice inside the async handshake (HttpConnectionBuilder::handshake is a coroutine; see DESIGN C13); "
           "URIs with userinfo, upper-case schemes, ports with leading zeros")
ASSUMPTIONS = ["library calls are replaced by the contract-level model table (mirsym/models.py), validated differentially against the native crates (native/tests/model_validation.rs)",
               "tracing is disabled (no subscriber)"]
TRUSTED = ["mirsym MIR parser/executor", "model table for http/core/alloc/tracing calls", "z3 5.1 (sequence/string theory), cvc5 1.0 cross-check on sampled queries"]


def harnesses(tier, seed):
    return []


def extra(tier, seed, log):
    res, table = mirrun.run("C13", tier, seed, log)
    extra.model_table = table
    return res
