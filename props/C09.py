"""C09 One misbehaving connection never takes the server down (E2: the duplex listener; E1: serving loop not reachable)."""
import mirrun

FACADE = False
FUNCS = ["<DuplexIncoming as Accept>::poll_accept", "<DuplexIncoming as futures_core::Stream>::poll_next", "stream::duplex::DuplexConnectionRequest::ack"]
BOUNDS = "0..=2 (quick) / 0..=3 (thorough) queued connection requests, each client still waiting or gone (symbolic), followed by an empty queue or a closed channel"
OUTSIDE = ("Serving::poll_once / ConnectionDriver (Kani: symex of the tracing/fmt machinery did not terminate, DESIGN section 0); TCP and Unix listeners (OS accept errors), TLS handshakes, "
           "hyper's handling of garbage bytes; the claim here is the one in-crate accept path that can fail because of a single client")
ASSUMPTIONS = ["tokio mpsc::Receiver::poll_recv and oneshot::Sender::send replaced by contract-level models (scripted queue; send fails iff the receiver is gone)"]
TRUSTED = ["mirsym MIR parser/executor", "channel models", "z3 5.1"]


def harnesses(tier, seed):
    return []


def extra(tier, seed, log):
    res, table = mirrun.run("C09", tier, seed, log)
    extra.model_table = table
    return res
