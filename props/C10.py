"""C10 Happy-eyeballs connect succeeds iff some candidate would; first success wins (E2: the async fns from their lowered coroutine MIR, virtual time as solver variables)."""
import mirrun

FACADE = False
FUNCS = ["happy_eyeballs::EyeballSet::{new, push, finish, process_all, join_next_with_timeout, join_next}"]
BOUNDS = ("0..2 (quick) / 0..3 (thorough) candidates; each accepts, fails or never completes, with a symbolic latency >= 0; stagger delay none or symbolic >= 0; "
          "overall timeout none or symbolic >= 0; initial concurrency none or 0..n; which timer / completion fires next is decided by the solver from the symbolic instants; "
          "simultaneous events are delivered together or one by one; tasks are polled only when woken")
OUTSIDE = ("more than 3 candidates; the TCP layer around the race (TcpConnecting::connect computes the stagger delay as timeout / #addresses and maps errors); tokio's timer wheel granularity (1 ms) and "
           "cooperative budgeting; FuturesUnordered's internals (modelled: ready-to-run queue in wake order)")
ASSUMPTIONS = ["tokio::time::timeout: inner future polled first, then the deadline; deadline = now + duration at construction (tokio 1.x time/timeout.rs)",
               "FuturesUnordered: push enqueues as ready-to-run and wakes the polling task; poll_next polls woken futures in wake order, each with its own waker; None when empty",
               "Instant::now() is the virtual clock; a timer / scripted completion wakes the task that last polled it, exactly at its instant"]
TRUSTED = ["mirsym MIR parser/executor incl. the coroutine (resume-function) support", "async_models.py", "z3 5.1"]


def harnesses(tier, seed):
    return []


def extra(tier, seed, log):
    res, table = mirrun.run("C10", tier, seed, log)
    extra.model_table = table
    return res
