"""C20 SNI validation forwards a request only if its host is the TLS server name (E2)."""
import mirrun

FACADE = False
FUNCS = ["server::conn::tls::sni::handle", "info::tls::TlsConnectionInfo::validated"]
BOUNDS = ("hosts <= 3 (quick) / 5 (thorough) characters over [A-Za-z0-9.-] for the Host header, the URI authority and the server name independently; optional u16 port on the first two; "
          "all five http::Version constants; TLS info absent / without server name / with server name; Host header and URI authority each present or absent")
OUTSIDE = "ValidateSNIService::call wiring (forward iff handle() returns None: two-arm match read off the MIR, not separately decided); Host header values that do not parse as an authority; server names with ports or IPv6 literals"
ASSUMPTIONS = ["ASCII lower-casing is an abstract function with eager congruence (equal text => equal folded text) and a lazily added definition when a counterexample is concretised",
               "str::parse::<Authority> is the inverse of Authority::as_str on text produced from structured authorities"]
TRUSTED = ["mirsym MIR parser/executor", "model table", "z3 5.1, cvc5 1.0"]


def harnesses(tier, seed):
    return []


def extra(tier, seed, log):
    res, table = mirrun.run("C20", tier, seed, log)
    extra.model_table = table
    return res
