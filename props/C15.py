"""C15 At most max_idle_per_host idle connections per origin (E2: inductive step on the insertion site + the limit as an invariant of the pool scheduler)"""
import mirrun
from kanirun import H

FACADE = True
FUNCS = ["client::pool::PoolInner::push", "<WhenReady as Drop>::drop", "client::pool::idle::IdleConnections::{push,len}",
         "client::pool::Pool::checkout", "<Checkout as Future>::poll", "<Checkout as PinnedDrop>::drop", "<Pooled as Drop>::drop", "<WhenReady as Future>::poll", "client::pool::PoolInner::pop"]
BOUNDS = ("pre-states with len <= max for max_idle_per_host in {0,1,2,8}, 0..2 waiters, shareable or not; one push / one release: post-state len <= max (an inductive step: pop never adds); and, against a second insertion site anywhere in the pool: "
          "the pool scheduler with max_idle_per_host in {0,1,2}, idle list full and one request in flight, every schedule of 4 (quick) / 5 (thorough) actions, the limit checked after every action")
OUTSIDE = "that dropping the surplus connection closes the socket (Drop of hyper's SendRequest)"
ASSUMPTIONS = ["HashMap/HashSet/VecDeque/Vec, tokio oneshot, parking_lot Mutex, Arc/Weak and Instant are replaced by contract-level models; the mock connection reports symbolic openness and scripted readiness",
               "a connection whose sender is still busy does not report open (HttpConnection::is_open is SendRequest::is_ready)", "single-threaded: every step runs with the pool mutex available; re-locking a held mutex is reported as a deadlock"]
TRUSTED = ["mirsym MIR parser/executor", "collection / channel / mutex / clock models (mirsym/pool_models.py)", "z3 5.1"]


def harnesses(tier, seed):
    hs = []
    return hs


def extra(tier, seed, log):
    res, table = mirrun.run("C15", tier, seed, log)
    extra.model_table = table
    return res
