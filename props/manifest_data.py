"""Claims, engines and not-applicable reasons (source of MANIFEST.json, see lib/mkmanifest.py)."""

E1 = "E1-kani"
E2 = "E2-mirsym"
ENGINES = [
    {"name": E1, "path": "/verif/lib/kanirun.py", "serves_properties": ["C05", "C08", "C18", "C19"],
     "kind_free_text": "Kani 0.68 proof harnesses (CBMC 6.11 + CaDiCaL) over hyperdriver's compiled functions; harness sources in /verif/kani, instantiated per concrete size by /verif/props/<id>.py"},
    {"name": E2, "path": "/verif/mirsym/run.py", "serves_properties": ["C02", "C03", "C04", "C05", "C06", "C09", "C10", "C11", "C12", "C13", "C14", "C15", "C16", "C17", "C19", "C20"],
     "kind_free_text": "path-wise symbolic execution of rustc's MIR (-Zunpretty=mir, regenerated from /repo on every run) with z3 (strings/bit-vectors), cvc5 cross-check, library calls replaced by a contract-level model table, counterexamples replayed through the public API by /verif/native"},
]
NOTES = "see DESIGN.md. exit 0 = all obligations discharged within the stated bounds; exit 1 = VIOLATION (replayed natively); exit 2 = inconclusive (timeout, OOM, unsupported construct, unreproduced counterexample)."

KANI_NOTE = "Trusted: Kani's rustc->goto translation, CBMC/CaDiCaL, the stubs listed in the evidence file, the tokio facade where used. Bounded: sizes are concrete per harness instance and listed; unwinding assertions on."
MIR_NOTE = "Trusted: the mirsym MIR parser/executor, the model table for library calls (validated differentially on concrete inputs), z3/cvc5. Bounded: string lengths, loop unrollings and enumerated shapes as listed in the evidence."

CLAIMS = {
    "C02": {"engine": E2, "design_ref": "DESIGN.md 2/C02", "technique": "symbolic execution of rustc MIR with SMT: step contracts from arbitrary bounded pool states (collections, channels, mutex as contract-level models)", "note": MIR_NOTE,
            "text": "Each synchronous step on the release/hand-back path (Pooled::drop, WhenReady poll/drop, PoolInner::push, register_connected) decided from every bounded pre-state: a non-shareable connection ends in exactly one place, is never cloned, is not visible in the pool while waiting for readiness, and a shareable one never takes the hand-back path. Partial: multi-request interleavings are covered only as sequences of such steps."},
    "C03": {"engine": E2, "design_ref": "DESIGN.md 2/C03", "technique": "bounded model checking over rustc MIR: the pool's own poll/drop functions driven by a scheduler whose choices (issue, poll-if-woken, cancel, dial outcome, release, background task) are solver/DFS decisions", "note": MIR_NOTE,
            "text": "For 2 (thorough: 3) requests to one origin and every schedule of up to 6 scheduler actions followed by a drain phase: no non-cancelled request is left pending once every dial has completed and no task is runnable (tasks are only polled when woken, so lost wake-ups count). Bounded: longer schedules and more requests are outside."},
    "C04": {"engine": E2, "design_ref": "DESIGN.md 2/C04", "technique": "symbolic execution of rustc MIR with SMT: step contracts of Pool::checkout / pop / push / register_connected", "note": MIR_NOTE,
            "text": "Pool::checkout reuses an open idle connection instead of dialing, becomes a pure waiter while an attempt is in flight, marks multiplexed dials; a finished multiplexed attempt serves all waiters and is stored; pop returns the newest eligible entry. Partial: polled/cancelled checkouts are outside."},
    "C05": {"engine": E1, "design_ref": "DESIGN.md 2/C05", "technique": "bounded model checking of the compiled code (Kani/CBMC, virtual clock as solver variable) + symbolic execution of rustc MIR with SMT for PoolInner::pop and the hand-back gate", "note": KANI_NOTE + " " + MIR_NOTE,
            "text": "IdleConnections::pop/push and PoolInner::pop decided for every instant/openness/timeout valuation on lists of 0..3 entries: the returned connection is open, unexpired and the newest eligible one; one pop from an arbitrary list is an inductive step over histories."},
    "C06": {"engine": E2, "design_ref": "DESIGN.md 2/C06", "technique": "symbolic execution of rustc MIR with SMT: origin isolation asserted in every pool step; key derivation and token map injectivity", "note": MIR_NOTE,
            "text": "Every pool step is run with a second origin populated and must leave its idle list, waiters and in-flight marker untouched; the pool key is exactly (scheme, authority) of the request URI; TokenMap is injective for symbolic keys."},
    "C08": {"engine": E1, "design_ref": "DESIGN.md 2/C08", "technique": "bounded model checking of the compiled code (Kani/CBMC), induction over reads", "note": KANI_NOTE,
            "text": "ReadVersion::poll decided for every byte valuation from every reachable undecided state and every chunking of one poll (base + step = any number of reads); Rewind replays exactly the consumed bytes."},
    "C13": {"engine": E2, "design_ref": "DESIGN.md 2/C13", "technique": "symbolic execution of rustc MIR with SMT (z3 strings/bit-vectors), counterexamples replayed natively", "note": MIR_NOTE,
            "text": "Host header insertion, HTTP/1 request-target rewriting and HTTP/2 sanitising decided for all abstract well-formed URIs x versions x methods x header presets."},
    "C09": {"engine": E2, "design_ref": "DESIGN.md 2/C09", "technique": "symbolic execution of rustc MIR with SMT, channel operations as contract-level models, counterexamples replayed natively", "note": MIR_NOTE,
            "text": "The duplex listener's accept paths decided for every queue of <= 3 connection requests with any subset of clients having given up: an error / end of stream is produced only when the listener's channel is closed. Partial: the serving loop itself and OS listeners are outside (stated)."},
    "C10": {"engine": E2, "design_ref": "DESIGN.md 2/C10", "technique": "symbolic execution of the rustc-lowered coroutine MIR of the four async fns in virtual time: latencies, stagger delay and deadline are solver variables, the order of timer / completion events is decided by the solver, counterexamples replayed natively in tokio's paused time", "note": MIR_NOTE,
            "text": "EyeballSet::finish for 0..2 (thorough 0..3) scripted candidates (accept / fail / never, symbolic latency), every delay / timeout / concurrency configuration: the winner is a candidate that accepted and none accepted strictly earlier; an error only after all were tried and failed (the first failure); a timeout only at or after the deadline; no-progress iff there are no candidates; no accepted candidate is missed."},
    "C11": {"engine": E2, "design_ref": "DESIGN.md 2/C11", "technique": "symbolic execution of the rustc-lowered coroutine MIR in virtual time (same world as C10), start instants of every scripted attempt compared with the pacing rule", "note": MIR_NOTE,
            "text": "Same domain as C10: candidates start in the given order, at most once, the initial batch at time zero and no more; every later start coincides with the elapsed stagger delay or a failure of a running attempt and is not delayed beyond the stagger delay; nothing that should have started a queued candidate happens before the end without starting it; the race ends by the overall deadline."},
    "C12": {"engine": E2, "design_ref": "DESIGN.md 2/C12", "technique": "symbolic execution of rustc MIR with SMT (z3), counterexamples replayed natively", "note": MIR_NOTE,
            "text": "TlsTransport::call / TlsTransportWrapper::call decided for every URI form and TLS configuration: TLS iff configured and https|wss, server name = URI host, no plaintext connect after a TLS-side error, and building the TLS stream cannot panic for any syntactically valid host."},
    "C14": {"engine": E2, "design_ref": "DESIGN.md 2/C14", "technique": "bounded model checking over rustc MIR (scheduler-driven pool world) + a targeted pre-emption obligation", "note": MIR_NOTE,
            "text": "A request dialing its own connection takes a connection released for its origin no later than its next poll, however often it was polled before; in every explored schedule an open idle connection never coexists with a request of that origin that is still waiting."},
    "C15": {"engine": E2, "design_ref": "DESIGN.md 2/C15", "technique": "symbolic execution of rustc MIR with SMT: inductive step on the only insertion site of the idle list", "note": MIR_NOTE,
            "text": "From every pre-state with len <= max_idle_per_host (max in {0,1,2,8}) one push / one release leaves len <= max; pop never adds: the bound holds at every point of every history."},
    "C16": {"engine": E2, "design_ref": "DESIGN.md 2/C16", "technique": "symbolic execution of rustc MIR with SMT; VecDeque as a list model validated through the verif-hooks feature", "note": MIR_NOTE,
            "text": "sort_preferred / set_port / from_binding decided for every address list up to length 7 in every family arrangement with symbolic payloads: element identity per output position against the specification list."},
    "C17": {"engine": E2, "design_ref": "DESIGN.md 2/C17", "technique": "symbolic execution of rustc MIR with SMT (z3): reachability of panic terminators", "note": MIR_NOTE,
            "text": "Every panic site named by the property's anchors (version conversion, HTTP/1 URI helpers, Host header, pool key, host/port extraction, TLS server name) is shown unreachable for all request values within the stated bounds, without assuming caller preconditions."},
    "C18": {"engine": E1, "design_ref": "DESIGN.md 2/C18", "technique": "bounded model checking of the compiled code (Kani/CBMC)", "note": KANI_NOTE,
            "text": "One operation on each generic adapter (TokioIo both directions, Rewind, client/server Stream<IO>, TlsBraid arms) from an arbitrary state: exactly the inner stream's bytes are delivered in order, results pass through unchanged."},
    "C19": {"engine": E1, "design_ref": "DESIGN.md 2/C19", "technique": "bounded model checking of the compiled code (Kani/CBMC), virtual time as solver variable", "note": KANI_NOTE,
            "text": "Per-poll contract of TimeoutFuture under a virtual clock for every schedule of <= 4 polls at arbitrary instants; inner work dropped on resolution."},
    "C20": {"engine": E2, "design_ref": "DESIGN.md 2/C20", "technique": "symbolic execution of rustc MIR with SMT (z3 strings), counterexamples replayed natively", "note": MIR_NOTE,
            "text": "handle() decided against a reference predicate for all combinations of version, Host header, URI authority, TLS info and host spellings within the bound: forwarded iff the named host equals the server name ignoring ASCII case and port."},
}

NOT_APPLICABLE = {
    "C01": "end-to-end statement about hyper's codecs, real task scheduling and many concurrent requests; neither engine can execute hyper+tokio (Kani ICE on runtime thread-locals). Its crate-local pieces are decided under C18, C08, C02.",
    "C07": "GracefulShutdown::poll / Serving::poll / the connection drivers are pin-projected state machines over tokio::sync::watch, the executor and hyper's connection futures; the Kani probe did not terminate and a MIR model of watch + hyper's graceful shutdown would verify my model of hyper rather than the crate (DESIGN.md 2/C07)",
}
