"""C05 The pool never hands out a closed or expired connection (E1: Kani, time as a solver variable)."""
from kanirun import H

FACADE = True
import kanirun
# std::mem::swap of a 32..48-byte (key,value) pair inside hashbrown needs 5..7 chunk iterations; everything else stays at the per-harness bound
CBMC_ARGS = ["--unwindset", kanirun.SWAP_LOOP + ":8"]
KANI_ARGS = ["--no-memory-safety-checks"]
STUBS = ["rs", "tracing", "clock"]
FUNCS = ["(mirsym) client::pool::PoolInner::pop, <WhenReady as Drop>::drop, <Pooled as Drop>::drop", "client::pool::idle::IdleConnections::{push,pop,len,is_empty,clear}", "client::pool::idle::Idle::new", "client::pool::PoolInner::pop",
         "client::pool::WhenReady::{poll,drop}", "client::pool::Pooled::drop"]
BOUNDS = ("idle lists of 0..3 entries (shape concrete per instance); push instants symbolic non-decreasing (secs<=100, nanos<1e9), pop instant symbolic later (secs<=200); "
          "each entry open/closed symbolic; idle_timeout None or Some(any (secs<=50,nanos<1e9)) including zero; unwind 5")
OUTSIDE = "whether hyper's SendRequest::is_ready() is a faithful 'open' signal (HttpConnection::is_open); histories longer than one pop on a list (each pop is a step from an arbitrary list)"
TIMEOUT = {"quick": 300, "thorough": 1800}
ASSUMPTIONS = ["std::time::Instant::now replaced by a harness-controlled (secs,nanos) clock; the stub itself is validated by c05_clock_stub_sane",
               "entries are pushed in non-decreasing time order (Instant is monotonic)"]


def harnesses(tier, seed):
    hs = []
    hs.append(H(name="c05_clock_stub_sane", module="idle", call="clock_stub_sane()", unwind=3, stubs=["clock"], family="clock_stub_sane", nontrivial=False, funcs=[]))
    for ni in (0, 1, 2, 3):
        for to in (0, 1):
            q = "quick" if ni <= 2 or to == 1 else "thorough"
            hs.append(H(name=f"c05_idle_pop_n{ni}_t{to}", module="idle", call=f"idle_pop({ni},{'true' if to else 'false'})", unwind=5, stubs=STUBS, family="idle_pop", tier=q,
                        desc={"entries": ni, "idle_timeout": "Some(symbolic)" if to else "None", "instants": "symbolic", "open": "symbolic"}, funcs=FUNCS[:2]))
    for ni in (0, 1, 2):
        for to in (0, 1):
            q = "thorough"
            for wb in (0,):
                # wb = 1 (a second origin populated: a second hash-table insert) does not finish under CBMC
                # within the tier's cap (section 0 of DESIGN.md); origin isolation of pop is decided by the
                # MIR obligation c05_pool_pop_step instead
                if ni == 2 and to == 0:
                    continue
                hs.append(H(name=f"c05_pool_pop_n{ni}_t{to}_b{wb}", module="pool", call=f"pop_step({ni},{'true' if to else 'false'},{'true' if wb else 'false'})", unwind=3, stubs=STUBS, family="pop_step",
                            tier=q if wb == 0 else "thorough",
                            desc={"idle_entries_origin_A": ni, "idle_entries_origin_B": wb, "idle_timeout": "Some(symbolic)" if to else "None"}, funcs=FUNCS[:3]))
    return hs


def extra(tier, seed, log):
    import mirrun
    res, table = mirrun.run("C05", tier, seed, log)
    extra.model_table = table
    return res
