"""C18 Stream adapters deliver exactly the bytes written, in order (E1: Kani, generic adapters)."""
import mirrun
from kanirun import H

FACADE = False
FUNCS = ["bridge::io::<TokioIo<T> as hyper::rt::Read>::poll_read", "bridge::io::<TokioIo<T> as tokio::io::AsyncRead>::poll_read",
         "bridge::io::<TokioIo<T> as hyper::rt::Write>::*", "bridge::io::<TokioIo<T> as tokio::io::AsyncWrite>::*",
         "rewind::Rewind::{poll_read,poll_write,poll_flush,poll_shutdown}",
         "client::conn::stream::Stream<IO>::{new,poll_read,poll_write,poll_flush,poll_shutdown}",
         "server::conn::stream::Stream<IO>::{new,poll_read,poll_write,poll_flush,poll_shutdown}",
         "stream::tls::TlsBraid::{poll_read,poll_write,poll_flush,poll_shutdown} (both arms)"]
BOUNDS = ("one operation per obligation on an adapter in an arbitrary state (adapters other than Rewind are stateless, so one step covers any sequence; Rewind's state is its prefix, "
          "see C08): destination capacity c in 0..=12, pre-filled p <= 4, inner chunk k <= 8 (concrete per instance); byte values, inner readiness {Ready,Pending,Err}, "
          "write return value symbolic; unwind 14/34")
OUTSIDE = ("tokio's own TcpStream/UnixStream/DuplexStream (real sockets; tokio's I/O driver cannot be compiled by Kani): stream::core::Braid and the three wrappers under it are decided "
           "by mirsym as pure dispatch (same operation, receiver, arguments; result unchanged) down to the call into tokio, which is the environment; "
           "the TLS arms (rustls), the in-process duplex transport's buffering (tokio::io::duplex)")
ASSUMPTIONS = ["inner streams honour the AsyncRead / hyper::rt::Read contracts (advance by what they wrote)",
               "pointer-and-length identity of the buffer handed to the inner stream implies the same bytes"]
TIMEOUT = {"quick": 240, "thorough": 900}


def harnesses(tier, seed):
    hs = []
    # read direction: (c, pre, k)
    shapes = []
    for c in range(0, 13):
        for pre in range(0, min(4, c) + 1):
            for k in sorted({0, 1, c - pre - 1, c - pre, c - pre + 1, 8}):
                if 0 <= k <= 8:
                    shapes.append((c, pre, k))
    quick_shapes = {(0, 0, 0), (0, 0, 1), (1, 0, 1), (1, 1, 1), (5, 0, 5), (5, 2, 3), (5, 2, 4), (5, 4, 8), (12, 4, 8), (12, 0, 0), (12, 3, 1), (8, 0, 8), (9, 1, 8)}
    extra = shapes[(seed * 17) % len(shapes)]
    for (c, pre, k) in shapes:
        q = "quick" if (c, pre, k) in quick_shapes or (c, pre, k) == extra else "thorough"
        d = {"dest_capacity": c, "prefilled": pre, "inner_chunk": k, "inner_readiness": "symbolic"}
        hs.append(H(name=f"c18_t2h_read_c{c}_p{pre}_k{k}", module="bridge_io", call=f"tokio_to_hyper_read({c},{pre},{k})", unwind=14, tier=q, family="tokio_to_hyper_read", desc=d, funcs=FUNCS[0:1]))
        hs.append(H(name=f"c18_h2t_read_c{c}_p{pre}_k{k}", module="bridge_io", call=f"hyper_to_tokio_read({c},{pre},{k})", unwind=14, tier=q, family="hyper_to_tokio_read", desc=d, funcs=FUNCS[1:2]))
    for d_ in (0, 1):
        for op in (0, 1, 2, 3, 4):
            hs.append(H(name=f"c18_write_half_d{d_}_op{op}", module="bridge_io", call=f"write_half({d_},{op})", unwind=8, family="write_half",
                        desc={"direction": "hyper::rt::Write over tokio sink" if d_ == 0 else "tokio AsyncWrite over hyper sink", "op": ["is_write_vectored", "write", "flush", "shutdown", "write_vectored"][op]}, funcs=FUNCS[2:4]))
    for p in (0, 1, 7, 24):
        hs.append(H(name=f"c18_rewind_write_p{p}", module="rewind", call=f"rewind_write({p})", unwind=26, family="rewind_write", tier="quick" if p in (0, 7) else "thorough",
                    desc={"pending_prefix": p, "op": "symbolic {write,flush,shutdown}"}, funcs=FUNCS[4:5]))
    for p, r in [(5, 3), (5, 5), (5, 9), (24, 1), (1, 0)]:
        hs.append(H(name=f"c18_rewind_read_p{p}_r{r}", module="rewind", call=f"rewind_read({p},{r},3,true)", unwind=34, family="rewind_read", tier="quick" if p == 5 else "thorough",
                    desc={"prefix_len": p, "dest_room": r}, funcs=FUNCS[4:5]))
    ad_shapes = [(6, 2, 3), (6, 2, 4), (6, 2, 8), (0, 0, 1), (12, 4, 8), (3, 0, 0)]
    for fam, mod, fn, fi in [("client_stream", "client_stream", "client_stream_op", 5), ("server_stream", "server_stream", "server_stream_op", 6),
                             ("braid_notls", "braid_tls", "braid_notls_op", 7), ("braid_tls", "braid_tls", "braid_tls_op", 7)]:
        for i, (c, pre, k) in enumerate(ad_shapes):
            hs.append(H(name=f"c18_{fam}_read_c{c}_p{pre}_k{k}", module=mod, call=f"{fn}(0,{c},{pre},{k})", unwind=14, family=fam, tier="quick" if i < 2 else "thorough",
                        desc={"op": "read", "dest_capacity": c, "prefilled": pre, "inner_chunk": k}, funcs=FUNCS[fi:fi + 1], features="tls" if "braid" in fam else ""))
        for op in (1, 2, 3):
            hs.append(H(name=f"c18_{fam}_op{op}", module=mod, call=f"{fn}({op},0,0,0)", unwind=14, family=fam,
                        desc={"op": ["", "write", "flush", "shutdown"][op]}, funcs=FUNCS[fi:fi + 1], features="tls" if "braid" in fam else ""))
    # the client Stream wrapper again with the `tls` feature on (its plain arm then goes through TlsBraid::NoTls).  The same
    # instances for the server wrapper make kani-compiler 0.68 panic (intrinsics.rs:243, reached through rustls' server side):
    # not run; the server wrapper is covered with the feature off, and TlsBraid's arms by the braid_* harnesses
    for fam, mod, fn, fi in [("client_stream", "client_stream", "client_stream_op", 5)]:
        for op, (c, pre, k) in [(0, (6, 2, 3)), (0, (6, 2, 8)), (1, (0, 0, 0)), (2, (0, 0, 0)), (3, (0, 0, 0))]:
            hs.append(H(name=f"c18_{fam}_tlsfeat_op{op}_c{c}_p{pre}_k{k}", module=mod, call=f"{fn}({op},{c},{pre},{k})", unwind=14, family=fam, tier="thorough",
                        desc={"op": ["read", "write", "flush", "shutdown"][op], "cargo_features": "tls"}, funcs=FUNCS[fi:fi + 1], features="tls"))
    return hs


def extra(tier, seed, log):
    res, table = mirrun.run("C18", tier, seed, log)
    extra.model_table = table
    return res
