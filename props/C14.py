"""C14 A waiting request takes a freed connection; its own dial is not wasted (E2: bounded model checking of pool schedules over MIR)."""
import mirrun

FACADE = False
FUNCS = ["client::pool::Pool::checkout", "<Checkout as Future>::poll", "<Waiting as Future>::poll", "<Checkout as PinnedDrop>::drop", "client::pool::checkout::Checkout::as_delayed",
         "client::pool::PoolInner::push", "<Pooled as Drop>::drop", "<WhenReady as Drop>::drop"]
BOUNDS = ("targeted: one dialing request (HTTP/1.1 or HTTP/2) polled 0..2 times, then an open connection for its origin is released, then one poll; "
          "schedules: 2 requests, every schedule of 4 (quick) / 6 (thorough) scheduler actions + drain, both continue_after_preemption settings: an open idle connection never coexists with a request of that origin that is still waiting")
OUTSIDE = ("the second clause only as far as the schedules reach it (the abandoned attempt continues as a background task iff continue_after_preemption and its connection is handed to the pool); "
           "the real Connector is a mock; more than 2 requests / 6 actions")
ASSUMPTIONS = ["collections, oneshot channel, mutex, spawn and task wake-ups replaced by models (mirsym/pool_models.py, ob_sched.py)"]
TRUSTED = ["mirsym MIR parser/executor", "scheduler/world model (mirsym/ob_sched.py)", "z3 5.1"]


def harnesses(tier, seed):
    return []


def extra(tier, seed, log):
    res, table = mirrun.run("C14", tier, seed, log)
    extra.model_table = table
    return res
