"""C07 Graceful shutdown finishes in-flight requests and stops accepting (E2: the crate's own state machines under a scheduler; hyper's connection future is a scripted mock)."""
import mirrun
from kanirun import H

FACADE = False
FUNCS = ["server::conn::auto::ReadVersion::{cancel,poll} (Kani)", "server::Server::{new,with_graceful_shutdown}", "server::GracefulShutdown::{new,poll}", "server::Serving::poll_once", "server::{close,CloseSender::send,CloseReciever::into_future (async block, lowered coroutine MIR),CloseFuture::poll}",
         "server::conn::drivers::{ConnectionDriver::poll,GracefulConnectionDriver::{new,poll}}"]
BOUNDS = ("pre-states with 0, 1 or 2 established connections (driver polled or not, idle or request in flight), up to 3 connections in all; every schedule of 5 / 4 / 3 (quick) or 7 / 6 / 4 (thorough) scheduler actions "
          "{connect, make-service resolves, request arrives, response completes, connection error, client closes, shutdown signal, poll server, poll driver (only if woken)}; then the signal if it has not fired and a drain")
OUTSIDE = ("everything inside the protocol's connection future: hyper's own graceful shutdown of HTTP/1 and HTTP/2 connections, request bodies, response streaming, and UpgradableConnection's HTTP/1 and HTTP/2 arms (they delegate to hyper); its cancel-while-sniffing arm is decided by the Kani harnesses c07_cancel_while_sniffing_f<n> for every number n of bytes already buffered; "
           "the connection is a mock with the contract 'after graceful_shutdown(): finish the exchange in flight, then complete; idle: complete at the next poll'; more than 3 connections; TLS acceptors")
ASSUMPTIONS = ["tokio watch channel: Sender::closed() resolves exactly when every Receiver has been dropped and wakes the tasks waiting on it",
               "futures_util Fuse: Pending for ever after completion; tracing spans disabled; the executor polls a spawned driver only when it was woken"]
TRUSTED = ["mirsym MIR parser/executor incl. coroutine support and the built-in effect of pin-project's project_replace", "ob_serve.py world", "z3 5.1"]


TIMEOUT = {"quick": 240, "thorough": 900}


def harnesses(tier, seed):
    """E1: the one arm of UpgradableConnection::graceful_shutdown that is hyperdriver's own code: a
    connection still sniffing its protocol is cancelled - whatever it has buffered so far"""
    hs = []
    quick_f = {0, 1, 5, 23}
    for f in range(24):
        hs.append(H(name=f"c07_cancel_while_sniffing_f{f}", module="auto", call=f"c07_cancel_while_sniffing({f})", unwind=26, family="c07_cancel_while_sniffing",
                    tier="quick" if f in quick_f else "thorough", desc={"bytes_already_consumed": f, "bytes": "symbolic"},
                    funcs=["server::conn::auto::ReadVersion::{cancel,poll}"]))
    return hs


def extra(tier, seed, log):
    res, table = mirrun.run("C07", tier, seed, log)
    extra.model_table = table
    return res
