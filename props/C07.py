"""C07 Graceful shutdown finishes in-flight requests and stops accepting (E2: the crate's own state machines under a scheduler; hyper's connection future is a scripted mock)."""
import mirrun

FACADE = False
FUNCS = ["server::Server::{new,with_graceful_shutdown}", "server::GracefulShutdown::{new,poll}", "server::Serving::poll_once", "server::{close,CloseSender::send,CloseReciever::into_future (async block, lowered coroutine MIR),CloseFuture::poll}",
         "server::conn::drivers::{ConnectionDriver::poll,GracefulConnectionDriver::{new,poll}}"]
BOUNDS = ("pre-states with 0, 1 or 2 established connections (driver polled or not, idle or request in flight), up to 3 connections in all; every schedule of 5 / 4 / 3 (quick) or 7 / 6 / 4 (thorough) scheduler actions "
          "{connect, make-service resolves, request arrives, response completes, connection error, client closes, shutdown signal, poll server, poll driver (only if woken)}; then the signal if it has not fired and a drain")
OUTSIDE = ("everything inside the protocol's connection future: hyper's own graceful shutdown of HTTP/1 and HTTP/2 connections, request bodies, response streaming, and UpgradableConnection's arms (its cancel-while-sniffing arm is a Kani harness under C08's module but not claimed here); "
           "the connection is a mock with the contract 'after graceful_shutdown(): finish the exchange in flight, then complete; idle: complete at the next poll'; more than 3 connections; TLS acceptors")
ASSUMPTIONS = ["tokio watch channel: Sender::closed() resolves exactly when every Receiver has been dropped and wakes the tasks waiting on it",
               "futures_util Fuse: Pending for ever after completion; tracing spans disabled; the executor polls a spawned driver only when it was woken"]
TRUSTED = ["mirsym MIR parser/executor incl. coroutine support and the built-in effect of pin-project's project_replace", "ob_serve.py world", "z3 5.1"]


def harnesses(tier, seed):
    return []


def extra(tier, seed, log):
    res, table = mirrun.run("C07", tier, seed, log)
    extra.model_table = table
    return res
