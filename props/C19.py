"""C19 A request with a timeout resolves by its deadline and cleans up (E1: the layer itself)."""
from kanirun import H

FACADE = True
FUNCS = ["(mirsym) client::pool::Pool::checkout, <Checkout as Future>::poll, <Checkout as PinnedDrop>::drop, Checkout::as_delayed, PoolInner::cancel_connection, <Pooled as Drop>::drop, <WhenReady as Future>::poll, <WhenReady as Drop>::drop, PoolInner::push", "service::timeout::Timeout::call", "service::timeout::Timeout::poll_ready", "service::timeout::future::TimeoutFuture::new", "service::timeout::future::TimeoutFuture::poll"]
BOUNDS = ("up to 4 polls at arbitrary non-decreasing virtual instants; issue instant t0 <= 1e6 ns, duration <= 1000 ns (keeps Duration construction division-free), "
          "poll instants <= 2e6 ns, inner completion instant any u64 or never, inner result Ok/Err symbolic; unwind 6")
OUTSIDE = ("pool clean-up after expiry for the stages in which the dropped future is a Checkout (waiting for its own or another request's dial) and for an exchange in flight on a pooled connection "
           "while another request is dialing (the connection is released closed for HTTP/1.1, open for HTTP/2): E2 obligation below; "
           "what hyper does inside the dropped handshake / exchange futures; "
           "tokio's real timer wheel waking the task at the deadline (the facade's Sleep is Ready iff NOW >= deadline)")
ASSUMPTIONS = ["tokio::time::sleep modelled by the facade crate: deadline = now + duration, Ready iff now >= deadline",
               "the runtime polls the future no later than the instant its timer fires (per-poll contract => by-deadline resolution)"]
TRUSTED = ["tokio facade: time::sleep / Sleep (virtual clock)"]


def harnesses(tier, seed):
    hs = []
    for n in (1, 2, 3, 4):
        hs.append(H(name=f"c19_timeout_schedule_{n}", module="timeout", call=f"timeout_schedule({n})", unwind=6, family="timeout_schedule",
                    tier="quick" if n <= 3 else "thorough", desc={"polls": n, "instants": "symbolic non-decreasing", "duration_ns": "symbolic <= 1000"}, funcs=FUNCS))
    hs.append(H(name="c19_timeout_poll_ready", module="timeout", call="timeout_poll_ready()", unwind=3, family="timeout_poll_ready", nontrivial=False, funcs=FUNCS[1:2]))
    return hs


def extra(tier, seed, log):
    import mirrun
    res, table = mirrun.run("C19", tier, seed, log)
    extra.model_table = table
    return res
