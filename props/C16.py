"""C16 Address preference sorting loses nothing and puts the preferred family first (E2)."""
import mirrun

FACADE = False
FUNCS = ["client::conn::dns::SocketAddrs::{sort_preferred,set_port}", "client::conn::dns::IpVersion::from_binding", "<SocketAddr as IpVersionExt>::version"]
BOUNDS = "address lists of 0..=5 (quick) / 0..=7 (thorough) entries in every IPv4/IPv6 arrangement, address payloads and ports symbolic (duplicates allowed), three preference settings; loops unrolled to length+3 with an unwinding obligation"
OUTSIDE = "that connection attempts are STARTED in the resulting order (the happy-eyeballs scheduler, C11); the resolver"
ASSUMPTIONS = ["VecDeque is modelled as a list (iter/enumerate/remove/push_front/pop_front/len); the model is validated against the real VecDeque through the verif-hooks replay family sort_preferred"]
TRUSTED = ["mirsym MIR parser/executor", "VecDeque/SocketAddr models", "z3 5.1"]


def harnesses(tier, seed):
    return []


def extra(tier, seed, log):
    res, table = mirrun.run("C16", tier, seed, log)
    extra.model_table = table
    return res
