"""C02 A non-multiplexed connection serves one request at a time (E2: step contracts of the pool)"""
import mirrun
from kanirun import H

FACADE = True
FUNCS = ["client::pool::PoolInner::push", "<Pooled as Drop>::drop", "<WhenReady as Future>::poll", "<WhenReady as Drop>::drop", "client::pool::checkout::register_connected", "client::pool::PoolRef::lock", "client::pool::Pooled::take"]
BOUNDS = "push: 0..2 waiters (alive/gone symbolic) x 0..2 idle x shareable x second origin x max_idle in {0,1,2,8}; release path: readiness scripts <= 3 polls, cancellation after any poll, token zero/non-zero, pool alive/dropped; register: 0..2 waiters"
OUTSIDE = "interleavings of several requests through Checkout::poll (oneshot receiver polling, PinnedDrop): each step is decided from an arbitrary bounded state instead; the 'upgraded connection' clause (rests on hyper reporting is_ready()==false after an upgrade)"
ASSUMPTIONS = ["HashMap/HashSet/VecDeque/Vec, tokio oneshot, parking_lot Mutex, Arc/Weak and Instant are replaced by contract-level models; the mock connection reports symbolic openness and scripted readiness",
               "a connection whose sender is still busy does not report open (HttpConnection::is_open is SendRequest::is_ready)", "single-threaded: every step runs with the pool mutex available; re-locking a held mutex is reported as a deadlock"]
TRUSTED = ["mirsym MIR parser/executor", "collection / channel / mutex / clock models (mirsym/pool_models.py)", "z3 5.1"]


def harnesses(tier, seed):
    hs = []
    return hs


def extra(tier, seed, log):
    res, table = mirrun.run("C02", tier, seed, log)
    extra.model_table = table
    return res
