"""C02 A non-multiplexed connection serves one request at a time (E1: step contracts)."""
import kanirun
from kanirun import H

FACADE = True
CBMC_ARGS = ["--unwindset", kanirun.SWAP_LOOP + ":8"]
KANI_ARGS = ["--no-memory-safety-checks"]
STUBS = ["rs", "tracing", "clock", "lock"]
FUNCS = ["client::pool::PoolInner::push", "client::pool::Pooled::{drop,take}", "client::pool::WhenReady::{poll,drop}", "client::pool::PoolRef::lock"]
BOUNDS = "push step from pre-states with 0..2 waiters (each live/closed symbolic), 0..2 idle entries; unwind 3 (+ unwindset 8 for core::ptr::swap chunks)"
OUTSIDE = "multi-request interleavings through Pool::checkout/Checkout::poll (see C03 in not_applicable); the 'upgraded connection' clause (rests on hyper reporting is_ready()==false after an upgrade)"
ASSUMPTIONS = ["memory-safety checks of std/hashbrown/tokio internals are switched off for these harnesses (functional assertions, overflow and unwinding checks stay on)"]
TIMEOUT = {"quick": 900, "thorough": 2400}


def b(x):
    return "true" if x else "false"


def push(nw, ni, share, max_idle, bound, with_b, mark, tier, pid="c02"):
    return H(name=f"{pid}_push_w{nw}_i{ni}_s{int(share)}_m{max_idle}_c{int(bound)}_b{int(with_b)}_k{int(mark)}", module="pool",
             call=f"push_step({nw},{ni},{b(share)},{max_idle},{b(bound)},{b(with_b)},{b(mark)})", unwind=3, stubs=STUBS, family="push_step", tier=tier,
             desc={"waiters_A": nw, "idle_A": ni, "shareable": share, "max_idle_per_host": max_idle, "other_origin_populated": with_b, "connecting_marked": mark},
             funcs=FUNCS[:1])


def harnesses(tier, seed):
    hs = []
    hs.append(push(1, 0, False, 8, False, False, False, "quick"))
    hs.append(push(2, 0, False, 8, False, False, False, "thorough"))
    hs.append(push(0, 1, False, 8, False, False, False, "thorough"))
    hs.append(push(2, 1, False, 8, False, False, False, "thorough"))
    hs.append(push(1, 0, False, 8, False, False, True, "thorough"))
    return hs
