"""C04 Idle connections are reused; HTTP/2 requests share one connection (E2: step contracts of the pool)"""
import mirrun
from kanirun import H

FACADE = True
FUNCS = ["client::pool::Pool::checkout", "client::pool::PoolInner::{pop,push}", "client::pool::checkout::{Checkout::new,register_connected}", "client::pool::key::TokenMap::insert", "client::pool::idle::IdleConnections::pop"]
BOUNDS = "checkout: origin known/new x 0..2 idle entries (open/closed symbolic) x attempt in flight or not x multiplexed or not x continue_after_preemption; pop: 0..3 entries with symbolic instants; push/register: 0..2 waiters"
OUTSIDE = "what happens to a checkout after its first synchronous step (polling, cancellation, pre-emption: C03/C14); the number of dials over whole histories"
ASSUMPTIONS = ["HashMap/HashSet/VecDeque/Vec, tokio oneshot, parking_lot Mutex, Arc/Weak and Instant are replaced by contract-level models; the mock connection reports symbolic openness and scripted readiness",
               "a connection whose sender is still busy does not report open (HttpConnection::is_open is SendRequest::is_ready)", "single-threaded: every step runs with the pool mutex available; re-locking a held mutex is reported as a deadlock"]
TRUSTED = ["mirsym MIR parser/executor", "collection / channel / mutex / clock models (mirsym/pool_models.py)", "z3 5.1"]


def harnesses(tier, seed):
    hs = []
    return hs


def extra(tier, seed, log):
    res, table = mirrun.run("C04", tier, seed, log)
    extra.model_table = table
    return res
