"""C03 Every request's connection acquisition terminates; nobody is stranded (E2: bounded model checking of pool schedules over MIR)."""
import mirrun

FACADE = False
FUNCS = ["client::pool::Pool::checkout", "<Checkout as Future>::poll", "<Waiting as Future>::poll", "<Checkout as PinnedDrop>::drop", "client::pool::checkout::Checkout::{new,as_delayed}",
         "client::pool::checkout::register_connected", "<Pooled as Drop>::drop", "<WhenReady as Future>::poll", "<WhenReady as Drop>::drop", "client::pool::PoolInner::{push,pop,cancel_connection,connected_in_handshake}"]
BOUNDS = ("2 requests to one origin, HTTP/1.1 or HTTP/2 each; every schedule of 4 (quick) / 6 (thorough; plus 3 requests x 5 actions) scheduler actions from "
          "{issue, poll a woken request, cancel, dial completes ok/err, release open/closed, run a woken background task}, followed by a drain phase (all dials succeed, every woken task runs); "
          "both settings of continue_after_preemption")
OUTSIDE = ("the real Connector (transport + handshake futures) is replaced by a mock whose dial outcome the scheduler decides; tokio's oneshot channel and task wake-ups are models "
           "(a task is polled only when woken); more than 3 requests / 6 actions; real executors and timing")
ASSUMPTIONS = ["each connection attempt terminates (the drain phase completes every dial)", "collections, oneshot channel, mutex and spawn replaced by contract-level models (mirsym/pool_models.py, ob_sched.py)",
               "a task that returns Pending is polled again only after something woke it (oneshot send/drop, dial completion)"]
TRUSTED = ["mirsym MIR parser/executor", "scheduler/world model (mirsym/ob_sched.py)", "z3 5.1"]


def harnesses(tier, seed):
    return []


def extra(tier, seed, log):
    res, table = mirrun.run("C03", tier, seed, log)
    extra.model_table = table
    return res
