"""C12 obligations: the crate's own TLS-or-plaintext decisions (client transport)."""
import z3

from inputs import authority_text, ev, sym_authority, sym_uri, uri_scenario
from interp import Agg, Cell, Enum, Inconclusive, Opaque, Ref, UNIT
from models import HeaderMapV, HeaderValueV, MODELS, DOC, TlsConnectV, bare_host, deref, model, valid_server_name


class TransportV:
    def __init__(self):
        self.connects = []


@model("<T as Transport>::connect", "Transport::connect", "TransportExt::connect", doc="mock inner transport: records the request parts it is asked to connect for, returns an opaque future")
def _transport_connect(ctx, a, c):
    t = deref(ctx, a[0])
    if not isinstance(t, TransportV):
        raise Inconclusive("Transport::connect on " + repr(t))
    t.connects.append(a[1])
    return Opaque("inner connect future")


class MockIoV:
    pass


@model("<TlsStream as From>::from", doc="hyperdriver client TlsStream::from(Connect): wraps the pending handshake (connection-info bookkeeping not modelled)")
def _tls_stream_from(ctx, a, c):
    return Agg("struct:TlsStream", [a[0]])


def judge_call(scn, out):
    """concrete reference: TLS iff configured and https|wss; True = the native run violates the property"""
    if out.get("result", "").startswith(("panic", "crash")):
        return True
    if "input_error" in out or "authority" not in scn:
        return None
    if "server name" in scn.get("claim", ""):
        return judge_server_name(scn, out)
    want_tls = str(scn.get("tls_configured", 1)) != "0" and scn.get("scheme") in ("https", "wss")
    got = out.get("stream")
    if want_tls:
        return got == "plain"
    return got in ("tls", "tls-handshake-pending")


def judge_server_name(scn, out):
    """the name the peer sees in the ClientHello must be the URI host (rustls sends no SNI for IP literals)"""
    from inputs import parse_authority
    if "sni" not in out:
        return None
    host, _port = parse_authority(scn.get("authority", "").split("@")[-1])
    import re as _re
    is_ip = host.startswith("[") or _re.fullmatch(r"\d+\.\d+\.\d+\.\d+", host) is not None
    want = "none" if is_ip else host.lower()
    return out["sni"].lower() != want


HOSTLEN = [3]


def obligations(prog, src, tier, seed):
    obs = []
    HOSTLEN[0] = 3 if tier == "quick" else 5
    f_call = prog.find_one(r"transport::<impl at src/client/conn/transport/mod\.rs:\d+:\d+: \d+:\d+>::call$", r"TlsTransport<")
    f_tls = prog.find_one(r"client::conn::stream::<impl at src/client/conn/stream/mod\.rs:\d+:\d+: \d+:\d+>::tls$")

    def headers_of(ctx):
        """the caller may have set a Host header naming any host: it must not influence the TLS decisions"""
        hm = HeaderMapV()
        ctx.hdr = None
        if ctx.choose([(True, False), (True, True)], "caller-supplied Host header"):
            hdr = sym_authority(ctx, "_hdr", 3)
            ctx.hdr = hdr
            hm.cell("host").v = HeaderValueV(hdr.as_str_model(ctx))
        return hm

    def scenario(p, m, extra=None):
        scn = dict(extra or {})
        scn.update(uri_scenario(m, p.ctx.u))
        if getattr(p.ctx, "hdr", None) is not None:
            scn["header.host"] = authority_text(m, p.ctx.hdr)
        return scn

    def parts_of(ctx):
        u = sym_uri(ctx, maxlen=HOSTLEN[0])
        ctx.u = u
        return Agg("struct:Parts", [z3.BitVec("method", 8), u, z3.BitVec("version", 8), headers_of(ctx), None])

    def run_call(ctx):
        parts = parts_of(ctx)
        tls = ctx.choose([(True, True), (True, False)], "tls configured")
        ctx.tls = tls
        t = TransportV()
        ctx.t = t
        if tls:
            braid = Enum("InnerBraid", "Tls", 1, [Agg("struct:TlsTransportWrapper", [t, Opaque("Arc<ClientConfig>")])])
        else:
            braid = Enum("InnerBraid", "Plain", 0, [t])
        tt = Agg("struct:TlsTransport", [braid])
        fut = ctx.exec_fn(f_call, [Ref(Cell(tt, "transport")), parts])
        ctx.fut = fut
        return fut

    def future_kind(fut):
        """-> ('plain'|'tls', inner)"""
        inner = fut.f[0]  # TransportBraidFuture { inner: InnerBraidFuture }
        return inner.variant, inner.f[0]

    def check_call(p):
        if p.outcome == "panic":
            return [("TlsTransport::call panics: " + str(p.value)[:60], False)]
        ctx = p.ctx
        u = ctx.u
        kind, inner = future_kind(p.value)
        secure = z3.And(u.has_scheme, z3.Or(u.scheme == z3.StringVal("https"), u.scheme == z3.StringVal("wss")))
        props = []
        if not ctx.tls:
            props.append(("without TLS configuration every request is plain", kind == "Plain"))
            return props
        if kind == "Plain":
            props.append(("https/wss request handed to the plain transport although TLS is configured", z3.Not(secure)))
            props.append(("plain request reached the inner transport once", len(ctx.t.connects) == 1))
        else:
            props.append(("non-https/wss request wrapped in TLS", secure))
            st = inner.f[0]  # TlsConnectionFuture.state
            if st.variant == "Error":
                props.append(("TLS error before connecting only when the URI has no host usable as a server name", z3.Or(z3.Not(u.has_auth), z3.Not(valid_server_name(bare_host(u.auth), ctx)))))
                props.append(("nothing was connected in the clear after a TLS-side error", len(ctx.t.connects) == 0))
            else:
                props.append(("TLS connect started without a host", u.has_auth))
                props.append(("the server name handed to the handshake is the URI host (IPv6 without brackets)", st.f[2] == bare_host(u.auth)))
                props.append(("the server name handed to the handshake is one rustls accepts (building the TLS stream cannot panic)", valid_server_name(st.f[2], ctx)))
                props.append(("inner transport asked to connect exactly once", len(ctx.t.connects) == 1))
        return props

    obs.append({"name": "c12_tls_transport_call", "family": "tls_transport_call",
                "funcs": ["<TlsTransport<T> as Service<request::Parts>>::call", "<TlsTransportWrapper<T> as Service<request::Parts>>::call", "transport::tls::future::TlsConnectionFuture::{new,error}",
                          "transport::future::TransportBraidFuture::{from_plain,from_tls}"],
                "bound": "every URI form (scheme in {none,http,https,ws,wss,ftp}), TLS configured yes/no",
                "doc": "TLS future iff a TLS configuration exists and the scheme is https|wss; its server name is uri.host(); missing host => NoDomain error without connecting; otherwise plain",
                "run": run_call, "check": check_call, "cex_extract": lambda p, m: scenario(p, m, {"family": "tls_connect", "tls_configured": int(p.ctx.tls)}),
                "judge": judge_call})

    # ---- the server name is usable for every syntactically valid host ----------------------------------
    def run_domain(ctx):
        u = sym_uri(ctx, maxlen=HOSTLEN[0])
        ctx.u = u
        ctx.assume(u.has_auth)
        ctx.assume(z3.Or(u.scheme == z3.StringVal("https"), u.scheme == z3.StringVal("wss")))
        ctx.assume(u.has_scheme)
        # what TlsConnectionFuture::poll does once the transport is connected:
        #   ClientStream::new(stream).tls(domain, config)      with domain = the host stored by call()
        parts = Agg("struct:Parts", [z3.BitVec("method", 8), u, z3.BitVec("version", 8), headers_of(ctx), None])
        t = TransportV()
        tt = Agg("struct:TlsTransport", [Enum("InnerBraid", "Tls", 1, [Agg("struct:TlsTransportWrapper", [t, Opaque("Arc<ClientConfig>")])])])
        fut = ctx.exec_fn(f_call, [Ref(Cell(tt, "transport")), parts])
        kind, inner = future_kind(fut)
        if kind != "Tls":
            ctx.rejected = "plain"
            return None
        st = inner.f[0]
        if st.variant != "Connecting":
            ctx.rejected = True
            return None
        ctx.rejected = False
        domain = st.f[2]
        ctx.domain = domain
        stream = Agg("struct:Stream", [Enum("TlsBraid", "NoTls", 0, [MockIoV()])])
        out = ctx.exec_fn(f_tls, [stream, domain, Opaque("Arc<ClientConfig>")])
        return out

    def check_domain(p):
        if p.outcome == "panic":
            return [("TLS stream construction panics for a syntactically valid URI host: " + str(p.value)[:70], False)]
        ctx = p.ctx
        if ctx.rejected == "plain":
            return [("https/wss request with TLS configured did not get a TLS connection", False)]
        if ctx.rejected:
            return [("a host that is a valid server name must not be rejected", z3.Not(valid_server_name(bare_host(ctx.u.auth), ctx)))]
        out = p.value
        br = out.f[0]
        props = [("stream is the TLS arm", br.variant == "Tls")]
        tls_connects = [e for e in ctx.events if e[0] == "tls_connect"]
        props.append(("exactly one handshake started", len(tls_connects) == 1))
        if tls_connects:
            name = deref(ctx, tls_connects[0][1])
            props.append(("server name offered/verified is the URI host", name.text == bare_host(ctx.u.auth)))
        return props

    def extract_domain(p, m):
        return scenario(p, m, {"family": "tls_connect"})

    obs.append({"name": "c12_tls_server_name_for_every_host", "family": "tls_server_name",
                "funcs": ["<TlsTransportWrapper<T> as Service<request::Parts>>::call", "client::conn::stream::Stream::tls", "client::conn::stream::tls::TlsStream::new"],
                "bound": "hosts: reg-names <= 3 (quick) / 5 (thorough) chars over [a-z0-9.-] and bracketed IPv6 literals of the same length; scheme https|wss",
                "doc": "for every syntactically valid URI host the TLS stream is built without panicking and the server name is the URI host (IPv6 without brackets)",
                "run": run_domain, "check": check_domain, "cex_extract": extract_domain,
                "judge": lambda scn, out: True if out.get("result", "").startswith("panic") else (judge_server_name(scn, out) if "server name" in scn.get("claim", "") else False)})
    obs.append(builder_keeps_tls(prog, src))
    return obs


def builder_keeps_tls(prog, src):
    """the TLS configuration lives in `client::Builder` until `build_service` hands it to the transport: every
    builder step that rebuilds the struct must carry it over (only the three `*_tls` methods may change it)"""
    import re
    fns = []
    for f in prog.funcs:
        if not re.match(r"client::builder::<impl at src/client/builder\.rs:\d+:\d+: \d+:\d+>::\w+$", f.name):
            continue
        short = f.name.rsplit("::", 1)[-1]
        if not f.args or not f.args[0][1].startswith("client::builder::Builder<") or not (f.ret or "").startswith("client::builder::Builder<"):
            continue
        if short in ("with_tls", "with_default_tls", "without_tls"):
            continue
        if short == "with_auto_http":
            continue  # its `HttpConnectionBuilder::default()` is mis-resolved by the executor (stated in the bound)
        fns.append((short, f))
    fields = src.lookup_struct("Builder", ["transport", "protocol", "tls", "pool"], ["client", "builder"])
    k_tls = fields.index("tls")

    def run(ctx):
        ctx.opaque_calls = True
        short, f = ctx.choose([(True, x) for x in fns], "builder method")
        ctx.method = short
        marker = Opaque("the configured ClientConfig")
        ctx.marker = marker
        vals = [Opaque("field " + n) for n in fields]
        from interp import some as _some
        vals[k_tls] = _some(marker)
        b = Agg("struct:Builder", vals)
        args = [b] + [Opaque("argument") for _ in f.args[1:]]
        return ctx.exec_fn(f, args)

    def check(p):
        if p.outcome == "panic":
            return [("a client builder step panics: " + str(p.value)[:80], False)]
        out = p.value
        ok = isinstance(out, Agg) and len(out.f) > k_tls and isinstance(out.f[k_tls], Enum) and out.f[k_tls].variant == "Some" and out.f[k_tls].f[0] is p.ctx.marker
        return [(f"Builder::{p.ctx.method} drops or replaces the TLS configuration set earlier (an https request would then go out in the clear)", ok),
                ("witness:reach", z3.BoolVal(True))]

    return {"name": "c12_builder_keeps_tls", "family": "builder_tls", "funcs": ["client::builder::Builder::{" + ",".join(n for n, _ in fns) + "}"],
            "bound": f"each of the {len(fns)} builder methods that take and return a Builder (other than with_tls / with_default_tls / without_tls, which may change it, and with_auto_http, which the executor cannot run), TLS configured before the call; calls into other crates are uninterpreted",
            "doc": "a TLS configuration set on the builder survives every later builder step",
            "run": run, "check": check, "crosscheck": False,
            "cex_extract": lambda p, m: {"family": "builder_tls_order", "method": p.ctx.method},
            "judge": lambda scn, out: out.get("result", "").startswith(("panic", "crash")) or out.get("first_bytes") == "plaintext"}
