"""C03: bounded model checking of pool schedules (see ob_sched.py)"""
import os

import ob_sched


def obligations(prog, src, tier, seed):
    depth = int(os.environ.get("SCHED_DEPTH", "4" if tier == "quick" else "6"))
    obs = ob_sched.obligations(prog, src, tier, seed, "C03", n_req=2, depth=depth, classes=("C03",))
    if tier == "thorough":
        obs += [dict(o, name=o["name"] + "_3req") for o in ob_sched.obligations(prog, src, tier, seed, "C03", n_req=3, depth=5, classes=("C03",))]
    return obs
