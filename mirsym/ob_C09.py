"""C09 obligations: a fault confined to one connecting client never makes the duplex listener fail."""
import z3

from interp import Agg, Cell, Enum, Opaque, Ref, none, some
from models import MODELS, OneshotSenderV, deref, model


class MpscReceiverV:
    def __init__(self, script):
        self.script = list(script)
        self.polls = 0


@model("Receiver::poll_recv", doc="tokio mpsc: scripted outcome per poll: Pending, Ready(None) (all senders gone) or Ready(Some(request))")
def _poll_recv(ctx, a, c):
    r = deref(ctx, a[0])
    r.polls += 1
    if not r.script:
        return Enum("Poll", "Pending", 1, [])
    ev = r.script.pop(0)
    if ev == "pending":
        return Enum("Poll", "Pending", 1, [])
    if ev == "closed":
        return Enum("Poll", "Ready", 0, [none()])
    return Enum("Poll", "Ready", 0, [some(ev)])


@model("DuplexStream::new", doc="hyperdriver stream::duplex::DuplexStream::new: a connected pair of in-memory streams (tokio::io::duplex)")
def _duplex_new(ctx, a, c):
    return Agg("tuple", [Opaque("duplex client end"), Opaque("duplex server end")])


def obligations(prog, src, tier, seed):
    obs = []
    f_accept = prog.find_one(r"stream::duplex::<impl at src/stream/duplex\.rs:\d+:\d+: \d+:\d+>::poll_accept$")
    f_next = prog.find_one(r"stream::duplex::<impl at src/stream/duplex\.rs:\d+:\d+: \d+:\d+>::poll_next$")
    K = 2 if tier == "quick" else 3

    def mk(fn, is_stream):
        def run(ctx):
            # up to K queued connection requests, each from a client that may have given up
            # (dropped its connect future) before the listener got to it; then pending / listener closed
            n = ctx.choose([(True, k) for k in range(0, K + 1)], "queued requests")
            reqs = []
            for i in range(n):
                alive = z3.Bool(f"client{i}_still_waiting")
                s = OneshotSenderV(alive, tag=str(i))
                reqs.append(Agg("struct:DuplexConnectionRequest", [s, z3.BitVec(f"bufsize{i}", 64)]))
            tail = ctx.choose([(True, "pending"), (True, "closed")], "then")
            rx = MpscReceiverV(reqs + [tail])
            ctx.reqs, ctx.tail, ctx.rx = reqs, tail, rx
            inc = Agg("struct:DuplexIncoming", [rx, none()])
            cell = Cell(inc, "incoming")
            return ctx.exec_fn(fn, [Ref(cell), Ref(Cell(Opaque("Context"), "cx"))])
        return run

    def mk_check(is_stream):
        def check(p):
            if p.outcome == "panic":
                return [("accept panics: " + str(p.value)[:60], False)]
            ctx = p.ctx
            r = p.value
            alive = [q.f[0].alive for q in ctx.reqs]
            some_alive = z3.Or(*alive) if alive else z3.BoolVal(False)
            props = []
            if r.variant == "Pending":
                props.append(("Pending only when no waiting client is queued", z3.Not(some_alive)))
                props.append(("Pending only when the queue really is empty and the listener is open", ctx.tail == "pending"))
                return props
            inner = r.f[0]
            if is_stream:
                if inner.variant == "None":
                    props.append(("stream ends only when the listener itself is gone", z3.And(z3.Not(some_alive), z3.BoolVal(ctx.tail == "closed"))))
                    return props
                inner = inner.f[0]
            if inner.variant == "Err":
                props.append(("accept fails only when the listener itself is gone (every client handle dropped), never because one client gave up", z3.And(z3.Not(some_alive), z3.BoolVal(ctx.tail == "closed"))))
            else:
                props.append(("a connection is produced only for a client that is still waiting", some_alive))
                first = None
                # the first still-waiting client is the one served
                delivered = [e for e in ctx.events if e[0] == "oneshot_delivered"]
                props.append(("exactly one client was acknowledged", len(delivered) == 1))
                if delivered:
                    k = int(delivered[0][1])
                    props.append(("the acknowledged client is the first one still waiting", z3.And(alive[k], *[z3.Not(alive[j]) for j in range(k)])))
            return props
        return check

    for name, fn, is_stream in [("c09_duplex_poll_accept", f_accept, False), ("c09_duplex_poll_next", f_next, True)]:
        obs.append({"name": name, "family": "duplex_accept", "funcs": ["<DuplexIncoming as Accept>::poll_accept" if not is_stream else "<DuplexIncoming as Stream>::poll_next", "stream::duplex::DuplexConnectionRequest::ack"],
                    "bound": f"0..={K} queued connection requests (quick 2 / thorough 3), each client still waiting or gone (symbolic), followed by an empty queue or a closed channel; loop unrolled <= {K + 3}",
                    "doc": "Err / end-of-stream only when the listener's channel is closed; a client that cancelled its connect is skipped, the first waiting client is acknowledged",
                    "run": mk(fn, is_stream), "check": mk_check(is_stream), "loop_bound": K + 4, "crosscheck": False,
                    "cex_extract": lambda p, m: {"family": "duplex_cancelled_connect", "cancelled_first": sum(1 for q in p.ctx.reqs if not bool(m.eval(q.f[0].alive, model_completion=True))), "waiting": sum(1 for q in p.ctx.reqs if bool(m.eval(q.f[0].alive, model_completion=True)))},
                    "judge": lambda scn, out: out.get("result", "").startswith(("panic", "crash")) or out.get("accept") == "err" or (int(scn.get("waiting", 0)) > 0 and out.get("served") != "1")})
    return obs
