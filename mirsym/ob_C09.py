"""C09 obligations: a fault confined to one connecting client never makes the duplex listener fail."""
import re

import z3

from interp import Agg, Cell, Enum, Inconclusive, Opaque, Panic, Ref, none, some
from models import MODELS, OneshotSenderV, deref, model


class MpscReceiverV:
    def __init__(self, script):
        self.script = list(script)
        self.polls = 0


@model("Receiver::poll_recv", doc="tokio mpsc: scripted outcome per poll: Pending, Ready(None) (all senders gone) or Ready(Some(request))")
def _poll_recv(ctx, a, c):
    r = deref(ctx, a[0])
    r.polls += 1
    if not r.script:
        return Enum("Poll", "Pending", 1, [])
    ev = r.script.pop(0)
    if ev == "pending":
        return Enum("Poll", "Pending", 1, [])
    if ev == "closed":
        return Enum("Poll", "Ready", 0, [none()])
    return Enum("Poll", "Ready", 0, [some(ev)])


@model("DuplexStream::new", doc="hyperdriver stream::duplex::DuplexStream::new: a connected pair of in-memory streams (tokio::io::duplex)")
def _duplex_new(ctx, a, c):
    return Agg("tuple", [Opaque("duplex client end"), Opaque("duplex server end")])


class TokioTcpV:
    """tokio::net::TcpStream as the environment: getpeername() may fail (a connection reset while it
    sat in the accept backlog reports ENOTCONN), getsockname() on a valid socket does not"""


@model("TcpStream::peer_addr", doc="environment stub: tokio TcpStream::peer_addr -> arbitrary io::Result (ENOTCONN after a reset)")
def _tcp_peer_addr(ctx, a, c):
    if ctx.branch(z3.Bool("getpeername_fails"), "getpeername fails"):
        return Enum("Result", "Err", 1, [Opaque("io::Error(ENOTCONN)")])
    return Enum("Result", "Ok", 0, [sock_addr(ctx, "peer")])


@model("TcpListener::poll_accept", doc="environment stub: tokio TcpListener::poll_accept -> Ready(Ok((socket, peer address)))")
def _tcp_listener_poll_accept(ctx, a, c):
    kind, addr = ctx.tcp_accept
    return Enum("Poll", "Ready", 0, [Enum("Result", "Ok", 0, [Agg("tuple", [TokioTcpV(), addr])])])


@model("TcpStream::local_addr", doc="environment stub: tokio TcpStream::local_addr -> Ok (getsockname on a valid descriptor)")
def _tcp_local_addr(ctx, a, c):
    return Enum("Result", "Ok", 0, [sock_addr(ctx, "local")])


def sock_addr(ctx, tag):
    v6 = ctx.choose([(True, False), (True, True)], tag + " address is IPv6")
    return Enum("SocketAddr", "V6" if v6 else "V4", 1 if v6 else 0, [Agg("addr", [z3.BitVec(tag + "_ip", 128), z3.BitVec(tag + "_port", 16)])])


class UnixSockAddrV:
    """tokio::net::unix::SocketAddr of an accepted peer: unnamed, or bound to a path that is or is not UTF-8"""

    def __init__(self, named, utf8):
        self.named, self.utf8 = named, utf8


class PathV:
    def __init__(self, utf8):
        self.utf8 = utf8


class UnixListenerV:
    def __init__(self, outcome):
        self.outcome = outcome


@model("UnixListener::poll_accept", doc="environment stub: tokio UnixListener::poll_accept -> Pending | Ready(Err) (the listener itself failed) | Ready(Ok((stream, peer address))) with an arbitrary peer address")
def _unix_poll_accept(ctx, a, c):
    l = deref(ctx, a[0])
    if l.outcome == "pending":
        return Enum("Poll", "Pending", 1, [])
    if l.outcome == "err":
        return Enum("Poll", "Ready", 0, [Enum("Result", "Err", 1, [Opaque("io::Error(listener)")])])
    return Enum("Poll", "Ready", 0, [Enum("Result", "Ok", 0, [Agg("tuple", [TokioUnixStreamV(l.peer), l.peer])])])


@model("SocketAddr::as_pathname", doc="std/tokio unix SocketAddr: Some(path) for a peer bound to a filesystem path")
def _as_pathname(ctx, a, c):
    sa = deref(ctx, a[0])
    if not isinstance(sa, UnixSockAddrV):
        raise Inconclusive("as_pathname on " + repr(sa))
    if sa.named:
        return some(Ref(Cell(PathV(sa.utf8), "path")))
    return none()


@model("Utf8Path::from_path", doc="camino: Some iff the path is valid UTF-8")
def _utf8_from_path(ctx, a, c):
    p = deref(ctx, a[0])
    if ctx.branch(p.utf8, "peer path is UTF-8"):
        return some(Ref(Cell(Opaque("Utf8Path"), "utf8path")))
    return none()


@model("Utf8Path::to_owned", "<Utf8Path as ToOwned>::to_owned", doc="camino")
def _utf8_to_owned(ctx, a, c):
    return Opaque("Utf8PathBuf")


@model("<SocketAddr as TryInto>::try_into", doc="core: the blanket TryInto, i.e. <UnixAddr as TryFrom<tokio::net::unix::SocketAddr>>::try_from (hyperdriver's impl, run from MIR)")
def _try_into_unixaddr(ctx, a, c):
    m = re.search(r"<(.*) as TryInto<(.*)>>::try_into", c)
    if not m or "UnixAddr" not in m.group(2):
        raise Inconclusive("try_into: " + c)
    f = ctx.prog.find_one(r"stream::unix::<impl at src/stream/unix\.rs:\d+:\d+: \d+:\d+>::try_from$", "^" + re.escape(m.group(1).strip()) + "$")
    return ctx.exec_fn(f, [a[0]])


@model("Option::transpose", doc="core: Option<Result<T, E>> -> Result<Option<T>, E>")
def _opt_transpose(ctx, a, c):
    o = a[0]
    if o.variant == "None":
        return Enum("Result", "Ok", 0, [none()])
    r = o.f[0]
    if r.variant == "Ok":
        return Enum("Result", "Ok", 0, [some(r.f[0])])
    return r


@model("io::Error::new", "Error::new", doc="std::io::Error::new(kind, msg): an opaque error value")
def _io_error_new(ctx, a, c):
    return Opaque("io::Error(new)")


def extract_duplex(p, m):
    reqs = p.ctx.reqs
    alive = [bool(m.eval(q.f[0].alive, model_completion=True)) for q in reqs]
    sizes = [m.eval(q.f[1], model_completion=True).as_long() for q in reqs]
    # the native driver queues the clients that gave up first, then the waiting ones
    order = [i for i, a in enumerate(alive) if not a] + [i for i, a in enumerate(alive) if a]
    scn = {"family": "duplex_cancelled_connect", "cancelled_first": alive.count(False), "waiting": alive.count(True), "bufsizes": ",".join(str(min(sizes[i], 1 << 20)) for i in order)}
    capv = m.eval(z3.BitVec("listener_max_buf_size", 64), model_completion=True).as_long()
    if any(str(d).startswith("listener_max_buf_size") for d in m.decls()):
        scn["cap"] = min(capv, 1 << 20)
    return scn


def obligations(prog, src, tier, seed):
    obs = []
    tcp_info(prog, obs)
    unix_accept(prog, obs)
    import ob_serve
    obs += ob_serve.obligations(prog, src, tier, seed, "C09")
    f_accept = prog.find_one(r"stream::duplex::<impl at src/stream/duplex\.rs:\d+:\d+: \d+:\d+>::poll_accept$")
    f_next = prog.find_one(r"stream::duplex::<impl at src/stream/duplex\.rs:\d+:\d+: \d+:\d+>::poll_next$")
    K = 2 if tier == "quick" else 3

    def mk(fn, is_stream):
        def run(ctx):
            # up to K queued connection requests, each from a client that may have given up
            # (dropped its connect future) before the listener got to it; then pending / listener closed
            n = ctx.choose([(True, k) for k in range(0, K + 1)], "queued requests")
            reqs = []
            for i in range(n):
                alive = z3.Bool(f"client{i}_still_waiting")
                s = OneshotSenderV(alive, tag=str(i))
                reqs.append(Agg("struct:DuplexConnectionRequest", [s, z3.BitVec(f"bufsize{i}", 64)]))
            tail = ctx.choose([(True, "pending"), (True, "closed")], "then")
            rx = MpscReceiverV(reqs + [tail])
            ctx.reqs, ctx.tail, ctx.rx = reqs, tail, rx
            # the listener's own cap on the buffer size: unset, or any value (the clients' requests are symbolic too)
            cap = ctx.choose([(True, False), (True, True)], "listener buffer cap configured")
            inc = Agg("struct:DuplexIncoming", [rx, some(z3.BitVec("listener_max_buf_size", 64)) if cap else none()])
            cell = Cell(inc, "incoming")
            return ctx.exec_fn(fn, [Ref(cell), Ref(Cell(Opaque("Context"), "cx"))])
        return run

    def mk_check(is_stream):
        def check(p):
            if p.outcome == "panic":
                return [("accept panics: " + str(p.value)[:60], False)]
            ctx = p.ctx
            r = p.value
            alive = [q.f[0].alive for q in ctx.reqs]
            some_alive = z3.Or(*alive) if alive else z3.BoolVal(False)
            props = []
            if r.variant == "Pending":
                props.append(("Pending only when no waiting client is queued", z3.Not(some_alive)))
                props.append(("Pending only when the queue really is empty and the listener is open", ctx.tail == "pending"))
                return props
            inner = r.f[0]
            if is_stream:
                if inner.variant == "None":
                    props.append(("stream ends only when the listener itself is gone", z3.And(z3.Not(some_alive), z3.BoolVal(ctx.tail == "closed"))))
                    return props
                inner = inner.f[0]
            if inner.variant == "Err":
                props.append(("accept fails only when the listener itself is gone (every client handle dropped), never because one client gave up", z3.And(z3.Not(some_alive), z3.BoolVal(ctx.tail == "closed"))))
            else:
                props.append(("a connection is produced only for a client that is still waiting", some_alive))
                first = None
                # the first still-waiting client is the one served
                delivered = [e for e in ctx.events if e[0] == "oneshot_delivered"]
                props.append(("exactly one client was acknowledged", len(delivered) == 1))
                if delivered:
                    k = int(delivered[0][1])
                    props.append(("the acknowledged client is the first one still waiting", z3.And(alive[k], *[z3.Not(alive[j]) for j in range(k)])))
            return props
        return check

    for name, fn, is_stream in [("c09_duplex_poll_accept", f_accept, False), ("c09_duplex_poll_next", f_next, True)]:
        obs.append({"name": name, "family": "duplex_accept", "funcs": ["<DuplexIncoming as Accept>::poll_accept" if not is_stream else "<DuplexIncoming as Stream>::poll_next", "stream::duplex::DuplexConnectionRequest::ack"],
                    "bound": f"0..={K} queued connection requests (quick 2 / thorough 3), each client still waiting or gone (symbolic), followed by an empty queue or a closed channel; loop unrolled <= {K + 3}",
                    "doc": "Err / end-of-stream only when the listener's channel is closed; a client that cancelled its connect is skipped, the first waiting client is acknowledged",
                    "run": mk(fn, is_stream), "check": mk_check(is_stream), "loop_bound": K + 4, "crosscheck": False,
                    "cex_extract": extract_duplex,
                    "judge": lambda scn, out: out.get("result", "").startswith(("panic", "crash")) or out.get("accept") == "err" or (int(scn.get("waiting", 0)) > 0 and out.get("served") != "1")})
    return obs


def tcp_info(prog, obs):
    """the accept loop calls `stream.info()` on every accepted TCP stream (Acceptor::poll_accept ->
    Stream::new, Serving::poll_once): it must not panic whatever state the peer left the socket in"""
    f_info = prog.find_one(r"stream::tcp::<impl at src/stream/tcp\.rs:\d+:\d+: \d+:\d+>::info$")

    f_tcp_accept = prog.find_one(r"stream::tcp::<impl at src/stream/tcp\.rs:\d+:\d+: \d+:\d+>::poll_accept$")

    def run(ctx):
        # the stream is the one the crate's own `<TcpListener as Accept>::poll_accept` builds from what
        # the OS hands out: (socket, peer address reported by accept())
        ctx.tcp_accept = ("ok", sock_addr(ctx, "accepted"))
        r = ctx.exec_fn(f_tcp_accept, [Ref(Cell(Opaque("tokio TcpListener"), "listener")), Ref(Cell(Opaque("Context"), "cx"))])
        if r.variant != "Ready" or r.f[0].variant != "Ok":
            raise Panic("accept of a connection that the OS handed out did not produce a stream: " + repr(r))
        st = r.f[0].f[0]
        return ctx.exec_fn(f_info, [Ref(Cell(st, "stream"))])

    def check(p):
        if p.outcome == "panic":
            return [("connection info of an accepted TCP stream panics inside the accept loop (" + str(p.value)[:70] + ")", False)]
        return [("witness:reach", z3.BoolVal(True))]

    obs.append({"name": "c09_tcp_stream_info_total", "family": "tcp_info", "funcs": ["<tokio::net::TcpListener as Accept>::poll_accept", "stream::tcp::TcpStream::server", "<stream::tcp::TcpStream as HasConnectionInfo>::info", "stream::tcp::make_canonical"],
                "bound": "server-side stream (remote address recorded at accept); getpeername() fails or succeeds (symbolic), getsockname() succeeds; IPv4 / IPv6 / v4-mapped addresses",
                "doc": "info() of an accepted stream never panics, also for a connection the peer reset before it was accepted",
                "run": run, "check": check, "crosscheck": False,
                "cex_extract": lambda p, m: {"family": "tcp_reset_before_accept"},
                "judge": lambda scn, out: out.get("result", "").startswith(("panic", "crash")) or out.get("server_alive") == "0" or int(out.get("served", "2")) < 2})


class TokioUnixStreamV:
    """the tokio stream of an accepted peer: remembers which address the peer is bound to"""

    def __init__(self, peer):
        self.peer = peer


def _unix_addr_query(nm, answer):
    def f(ctx, a, c):
        st = deref(ctx, a[0])
        if isinstance(st, Agg):
            # hyperdriver's own UnixStream method of the same name: run it from MIR
            return ctx.exec_fn(ctx.prog.find_one(r"stream::unix::<impl at src/stream/unix\.rs:\d+:\d+: \d+:\d+>::" + nm + "$"), [a[0]])
        if not isinstance(st, TokioUnixStreamV):
            raise Inconclusive(nm + " on " + repr(st))
        return Enum("Result", "Ok", 0, [answer(st)])
    return f


model("UnixStream::peer_addr", doc="environment stub: tokio UnixStream::peer_addr of an accepted stream -> Ok(the address the peer is bound to); hyperdriver's own method of that name runs from MIR")(_unix_addr_query("peer_addr", lambda st: st.peer))
model("UnixStream::local_addr", doc="environment stub: tokio UnixStream::local_addr of an accepted stream -> Ok(the server's own address, a UTF-8 path: the server's own configuration is not a client fault); hyperdriver's own method runs from MIR")(_unix_addr_query("local_addr", lambda st: UnixSockAddrV(True, z3.BoolVal(True))))


def unix_accept(prog, obs):
    """`<UnixListener as Accept>::poll_accept`: whatever address the connecting peer is bound to, accepting
    it must not produce an error (an accept error ends the serving loop)"""
    f_acc = prog.find_one(r"stream::unix::<impl at src/stream/unix\.rs:\d+:\d+: \d+:\d+>::poll_accept$")
    f_info = prog.find_one(r"stream::unix::<impl at src/stream/unix\.rs:\d+:\d+: \d+:\d+>::info$")

    def run(ctx):
        outcome = ctx.choose([(True, "ok"), (True, "err"), (True, "pending")], "the listener's own accept")
        l = UnixListenerV(outcome)
        named = ctx.choose([(True, False), (True, True)], "peer socket is bound to a path")
        l.peer = UnixSockAddrV(named, z3.Bool("peer_path_is_utf8"))
        ctx.l = l
        r = ctx.exec_fn(f_acc, [Ref(Cell(l, "listener")), Ref(Cell(Opaque("Context"), "cx"))])
        # the accept loop asks every accepted stream for its connection info (Acceptor::poll_accept ->
        # Stream::new -> info(), or Serving::poll_once -> info()): that call must not panic either
        if r.variant == "Ready" and r.f[0].variant == "Ok":
            ctx.exec_fn(f_info, [Ref(Cell(r.f[0].f[0], "accepted"))])
        return r

    def check(p):
        if p.outcome == "panic":
            return [("accepting a Unix connection (or asking the accepted stream for its connection info, as the accept loop does) panics: " + str(p.value)[:80], False)]
        r = p.value
        l = p.ctx.l
        if l.outcome == "pending":
            return [("pending accept stays pending", r.variant == "Pending")]
        res = r.f[0] if r.variant == "Ready" else None
        props = [("accept result is ready when the listener's is", res is not None)]
        if res is not None:
            if l.outcome == "err":
                props.append(("a listener error is reported", res.variant == "Err"))
            else:
                props.append(("accepting a connection fails because of the address the connecting client is bound to (the error ends the serving loop)", res.variant == "Ok"))
        props.append(("witness:reach", z3.BoolVal(True)))
        return props

    obs.append({"name": "c09_unix_accept_total", "family": "unix_accept", "funcs": ["<tokio::net::UnixListener as Accept>::poll_accept", "<UnixAddr as TryFrom<tokio::net::unix::SocketAddr>>::try_from"],
                "bound": "the listener's accept pending / failing / succeeding; the peer unnamed, or bound to a path that is or is not UTF-8 (symbolic)",
                "doc": "an accept error is produced only when the listener itself fails, never because of a property of one connecting client",
                "run": run, "check": check, "crosscheck": False,
                "cex_extract": lambda p, m: {"family": "unix_client_path", "utf8": int(bool(z3.is_true(m.eval(z3.Bool("peer_path_is_utf8"), model_completion=True))))},
                "judge": lambda scn, out: out.get("result", "").startswith(("panic", "crash")) or out.get("server_alive") == "0" or int(out.get("served", "2")) < 2})
