"""C04: pool step contracts (see ob_pool.py)"""
import ob_pool


def obligations(prog, src, tier, seed):
    obs = ob_pool.obligations(prog, src, tier, seed, "C04", select=['pool_pop', 'pool_push', 'pool_checkout', 'pool_register'])
    import os
    import ob_sched
    depth = int(os.environ.get("SCHED_DEPTH", "4" if tier == "quick" else "6"))
    obs += ob_sched.obligations(prog, src, tier, seed, "C04", n_req=2, depth=depth, classes=('C04',))
    # "cancelling a request that has not used a connection ... does not cause additional dials": a request
    # that is dialing must still be served by a released connection after a sibling attempt was abandoned
    for o in ob_sched.obligations(prog, src, tier, seed, "C04", classes=("C14",)):
        if o["name"].endswith("preempt_by_released_connection"):
            base = o["check"]
            obs.append(dict(o, name="c04_cancel_does_not_cost_a_dial",
                            check=lambda p, base=base: [(lbl.replace("[C14]", "[C04] (would dial although a released connection is available)"), pr) for lbl, pr in base(p)]))
    if tier == "thorough":
        obs += [dict(o, name=o["name"] + "_3req") for o in ob_sched.obligations(prog, src, tier, seed, "C04", n_req=3, depth=5, classes=('C04',)) if "schedules" in o["name"]]
    return obs
