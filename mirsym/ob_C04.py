"""C04: pool step contracts (see ob_pool.py)"""
import ob_pool


def obligations(prog, src, tier, seed):
    obs = ob_pool.obligations(prog, src, tier, seed, "C04", select=['pool_pop', 'pool_push', 'pool_checkout', 'pool_register'])
    return obs
