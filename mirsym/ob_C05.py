"""C05: pool step contracts (see ob_pool.py)"""
import ob_pool


def obligations(prog, src, tier, seed):
    obs = ob_pool.obligations(prog, src, tier, seed, "C05", select=['pool_pop', 'pool_release_path'])
    return obs
