"""C05: pool step contracts (see ob_pool.py)"""
import ob_pool


def obligations(prog, src, tier, seed):
    obs = ob_pool.obligations(prog, src, tier, seed, "C05", select=['pool_pop', 'pool_release_path'])
    import os
    import ob_sched
    depth = int(os.environ.get("SCHED_DEPTH", "4" if tier == "quick" else "6"))
    obs += ob_sched.obligations(prog, src, tier, seed, "C05", n_req=2, depth=depth, classes=('C05',))
    return obs
