"""C10 / C11: the happy-eyeballs race (`EyeballSet::{finish, process_all, join_next_with_timeout, join_next}`)
executed from its rustc-lowered coroutine MIR in virtual time.

Inputs (solver variables): per candidate its latency (Int >= 0 ns), the stagger delay, the overall
timeout; (path choices): number of candidates, each candidate's outcome (accepts / fails / never
completes), whether delay / timeout / initial concurrency are configured, the initial concurrency.
The event loop advances virtual time to the next timer or completion; *which* event is next is
decided by the solver from the symbolic instants (`choose` on "t_e is minimal"), simultaneous
events may fire together or one by one.  A task is only polled when woken.
"""
import z3

import async_models  # noqa: F401  (registers the models)
from async_models import PENDING, READY, FuturesUnorderedV, TimeoutV, mk_cx, poll_value, task_of, wake
from interp import Agg, Cell, CoroV, Enum, Inconclusive, Panic, Ref, UNIT, none, some
from models import MODELS, deref, err, model, ok


class AttemptV:
    """scripted connection attempt (the `F` of EyeballSet<F, T, E>)"""

    def __init__(self, k, outcome, latency):
        self.k, self.outcome, self.latency = k, outcome, latency
        self.started = None
        self.finished = False
        self.fired = False
        self.waiter = None
        self.dropped_at = None
        self.pushed = 0
        self.polls = 0

    def when(self):
        return self.started + self.latency

    def poll_model(self, ctx, cx):
        if self.finished:
            raise Panic(f"attempt {self.k} polled again after it completed")
        if self.started is None:
            self.started = ctx.now
            ctx.start_order.append(self.k)
        self.polls += 1
        if self.outcome != "never" and ctx.branch(ctx.now >= self.when(), f"attempt {self.k} complete"):
            self.finished = True
            self.finished_at = ctx.now
            v = z3.BitVecVal(self.k, 64)
            return READY(ok(v) if self.outcome == "ok" else err(v))
        self.waiter = task_of(ctx, cx)
        return PENDING()

    def mir_drop(self, ctx):
        if self.dropped_at is None:
            self.dropped_at = ctx.now


def opt(v):
    return none() if v is None else some(v)


def pending_events(ctx):
    ev = []
    for a in ctx.attempts:
        if a.started is not None and not a.finished and a.dropped_at is None and a.outcome != "never" and not a.fired:
            ev.append(("attempt", a, a.when()))
    for t in ctx.timers:
        if not t.done and not t.dropped and t.waiter is not None and not getattr(t, "fired", False):
            ev.append(("timer", t, t.deadline))
    return ev


def fire(ctx, e):
    kind, obj, t = e
    obj.fired = True
    ctx.fired_log.append((kind, obj, t))
    wake(ctx, obj.waiter)


def advance(ctx):
    ev = pending_events(ctx)
    if not ev:
        return False
    opts = []
    for i, e in enumerate(ev):
        cond = z3.And(*[e[2] <= o[2] for j, o in enumerate(ev) if j != i]) if len(ev) > 1 else z3.BoolVal(True)
        opts.append((cond, e))
    e = ctx.choose(opts, "next event")
    ctx.assume(e[2] >= ctx.now)
    ctx.now = e[2]
    fire(ctx, e)
    # events at the same instant may be delivered before the task runs again, or after
    while True:
        same = [o for o in pending_events(ctx)]
        cands = [(o[2] == ctx.now, o) for o in same]
        pick = ctx.choose([(True, None)] + cands, "simultaneous event")
        if pick is None:
            break
        fire(ctx, pick)
    return True


def obligations(prog, src, tier, seed, which="C10"):
    HE = r"happy_eyeballs::<impl at src/happy_eyeballs\.rs:\d+:\d+: \d+:\d+>::"
    f_new = prog.find_one(HE + r"new$")
    f_push = prog.find_one(HE + r"push$")
    f_finish = prog.find_one(HE + r"finish$")
    funcs = ["happy_eyeballs::EyeballSet::{new,push,finish,process_all,join_next_with_timeout,join_next} (the four async fns from their lowered coroutine MIR)"]

    def mk_run(n, outcomes_fixed=None, restricted=False):
        def run(ctx):
            ctx.coroutines = True
            ctx.now = z3.IntVal(0)
            ctx.timers, ctx.woken, ctx.start_order, ctx.fired_log = [], set(), [], []
            outs = []
            for i in range(n):
                if outcomes_fixed is not None:
                    outs.append(outcomes_fixed[i])
                else:
                    outs.append(ctx.choose([(True, "ok"), (True, "err"), (True, "never")], f"outcome of candidate {i}"))
            has_delay = ctx.choose([(True, False), (True, True)], "stagger delay configured")
            if restricted:
                # larger candidate sets: no overall timeout, initial concurrency 1 or 2 (the default)
                has_timeout = False
                ic = ctx.choose([(True, 1), (True, 2)], "initial concurrency")
            else:
                has_timeout = ctx.choose([(True, False), (True, True)], "overall timeout configured")
                ic = ctx.choose([(True, None)] + [(True, k) for k in range(0, n + 1)], "initial concurrency")
            delay = z3.Int("stagger_delay")
            timeout = z3.Int("overall_timeout")
            ctx.assume(delay >= 0)
            ctx.assume(timeout >= 0)
            ctx.attempts = []
            for i in range(n):
                lat = z3.Int(f"latency_{i}")
                ctx.assume(lat >= 0)
                ctx.attempts.append(AttemptV(i, outs[i], lat))
            ctx.cfg = {"n": n, "outcomes": outs, "delay": delay if has_delay else None, "timeout": timeout if has_timeout else None, "ic": ic}
            s = ctx.exec_fn(f_new, [opt(delay if has_delay else None), opt(timeout if has_timeout else None), opt(None if ic is None else z3.BitVecVal(ic, 64))])
            cell = Cell(s, "eyeballs")
            for a in ctx.attempts:
                ctx.exec_fn(f_push, [Ref(cell), a])
            root = ctx.exec_fn(f_finish, [Ref(cell)])
            if not isinstance(root, CoroV):
                raise Inconclusive("finish() did not produce a coroutine: " + repr(root))
            rc = Cell(root, "finish()")
            ctx.woken.add("root")
            result = None
            for _ in range(6 * n + 12):
                if "root" in ctx.woken:
                    ctx.woken.discard("root")
                    r = poll_value(ctx, Ref(rc), mk_cx("root"))
                    if r.variant == "Ready":
                        result = r.f[0]
                        break
                    continue
                if not advance(ctx):
                    result = "hang"
                    break
            else:
                raise Inconclusive("event loop bound exceeded")
            ctx.end = ctx.now
            ctx.result = result
            ctx.set_cell = cell
            return result
        return run

    def facts(p):
        ctx = p.ctx
        cfg = ctx.cfg
        A = ctx.attempts
        return ctx, cfg, A, ctx.end, ctx.result

    def describe(ctx):
        c = ctx.cfg
        return f"candidates {c['outcomes']}, delay {'set' if c['delay'] is not None else 'none'}, timeout {'set' if c['timeout'] is not None else 'none'}, initial concurrency {c['ic']}, start order {ctx.start_order}"

    # ---- C10: outcome ------------------------------------------------------------------------------
    def check_outcome(p):
        if p.outcome == "panic":
            return [("happy-eyeballs race panics: " + str(p.value)[:100], False)]
        ctx, cfg, A, end, res = facts(p)
        props = []
        d = describe(ctx)
        started_ok = [a for a in A if a.outcome == "ok" and a.started is not None]
        if res == "hang":
            props.append((f"[C10] the race never completes although a timer or an attempt could still make progress ({d})",
                          cfg["timeout"] is None and all(a.finished or a.outcome == "never" or a.started is None for a in A)))
            for a in started_ok:
                props.append((f"[C10] candidate {a.k} accepted but the race never reported it ({d})", False))
        elif res.variant == "Ok":
            k = z3.simplify(res.f[0]).as_long()
            w = A[k]
            props.append((f"[C10] success reported for candidate {k} which did not accept ({d})", w.outcome == "ok" and w.started is not None and w.finished))
            if w.outcome == "ok" and w.started is not None:
                for a in started_ok:
                    if a is not w:
                        props.append((f"[C10] candidate {a.k} accepted strictly before the reported winner {k} ({d})", z3.Not(a.when() < w.when())))
        else:
            e = res.f[0]
            if e.variant == "Error":
                k = z3.simplify(e.f[0]).as_long()
                props.append((f"[C10] failure reported although not every candidate had been tried and had failed ({d})", all(a.outcome == "err" and a.finished for a in A)))
                for a in A:
                    if a.outcome == "err" and a.started is not None and a.k != k:
                        props.append((f"[C10] reported error is candidate {k}'s, but candidate {a.k} failed strictly earlier ({d})", z3.Not(a.when() < A[k].when())))
            elif e.variant == "Timeout":
                props.append((f"[C10] timeout reported although no overall timeout is configured ({d})", cfg["timeout"] is not None))
                if cfg["timeout"] is not None:
                    props.append((f"[C10] timeout reported before the overall deadline ({d})", end >= cfg["timeout"]))
                    props.append((f"[C10] reported elapsed time is not the time since the race started ({d})", e.f[0] == end))
            elif e.variant == "NoProgress":
                props.append((f"[C10] no-progress error although there were candidates ({d})", cfg["n"] == 0))
            else:
                props.append(("[C10] unknown error variant " + e.variant, False))
            for a in started_ok:
                props.append((f"[C10] candidate {a.k} accepted strictly before the race ended, yet the race failed ({d})", z3.Not(a.when() < end)))
        if cfg["n"] == 0:
            props.append((f"[C10] with no candidates the race must fail immediately with no-progress ({d})", res != "hang" and res.variant == "Err" and res.f[0].variant == "NoProgress" and z3.is_true(z3.simplify(end == 0))))
        props.append(("witness:reach", z3.BoolVal(True)))
        return props

    # ---- C11: pacing ---------------------------------------------------------------------------------
    def check_pacing(p):
        if p.outcome == "panic":
            return [("happy-eyeballs race panics: " + str(p.value)[:100], False)]
        ctx, cfg, A, end, res = facts(p)
        props = []
        d = describe(ctx)
        n = cfg["n"]
        order = ctx.start_order
        props.append((f"[C11] candidates were not started in the given order ({d})", order == list(range(len(order)))))
        props.append((f"[C11] a candidate was handed to the task set more than once ({d})", all(a.pushed <= 1 for a in A)))
        ic_eff = n if cfg["ic"] is None else min(cfg["ic"], n)
        for k, a in enumerate(A):
            if a.started is None:
                continue
            if k < ic_eff:
                props.append((f"[C11] candidate {k} belongs to the initial batch but was not started at the beginning ({d})", a.started == 0))
                continue
            prev = A[k - 1].started if k > 0 else z3.IntVal(0)
            if prev is None:
                props.append((f"[C11] candidate {k} started although candidate {k - 1} never was ({d})", False))
                continue
            reasons = []
            if cfg["delay"] is not None:
                reasons.append(a.started == prev + cfg["delay"])
                props.append((f"[C11] candidate {k} was started later than the stagger delay after candidate {k - 1} ({d})", a.started <= prev + cfg["delay"]))
            for b in A[:k]:
                if b.outcome == "err" and b.started is not None:
                    reasons.append(z3.And(b.when() == a.started, b.when() >= prev))
            if k == 0 or all(b.outcome == "err" for b in A[:k]):
                # nothing was running any more (or nothing ever was: initial concurrency 0)
                reasons.append(z3.And(*[b.when() <= a.started for b in A[:k]]) if k else z3.BoolVal(True))
            props.append((f"[C11] candidate {k} was started before the stagger delay elapsed and without a running attempt having failed ({d})", z3.Or(*reasons) if reasons else z3.BoolVal(False)))
        # candidates never started: nothing that should have started them happened before the end
        for k, a in enumerate(A):
            if a.started is not None or k == 0 or A[k - 1].started is None:
                continue
            prev = A[k - 1].started
            if cfg["delay"] is not None:
                props.append((f"[C11] candidate {k} was never started although the stagger delay after candidate {k - 1} elapsed before the race ended ({d})", z3.Not(prev + cfg["delay"] < end)))
            for b in A[:k]:
                if b.outcome == "err" and b.started is not None:
                    props.append((f"[C11] candidate {k} was never started although candidate {b.k} failed while it was queued ({d})", z3.Or(b.when() <= prev, b.when() >= end)))
        if cfg["timeout"] is not None:
            props.append((f"[C11] the race was still running after the overall deadline ({d})", res != "hang"))
            props.append((f"[C11] the race completed later than the overall deadline ({d})", end <= cfg["timeout"]))
        props.append(("witness:reach", z3.BoolVal(True)))
        return props

    def scenario(p, m):
        ctx = p.ctx
        cfg = ctx.cfg

        def val(e):
            return m.eval(e, model_completion=True).as_long()
        scn = {"family": "eyeballs", "outcomes": ",".join(cfg["outcomes"]), "latencies": ",".join(str(val(a.latency)) for a in ctx.attempts),
               "delay": "none" if cfg["delay"] is None else val(cfg["delay"]), "timeout": "none" if cfg["timeout"] is None else val(cfg["timeout"]),
               "concurrency": "none" if cfg["ic"] is None else cfg["ic"]}
        return scn

    import itertools
    import os
    obs = []
    check = check_outcome if which == "C10" else check_pacing
    doc = ("the race reports the candidate that accepts first, fails only after every candidate was tried and failed (first failure) or at the deadline, no-progress iff there are no candidates"
           if which == "C10" else
           "candidates start in order, at most once, the initial batch at once and no more; every further start is justified by the elapsed stagger delay or a failed attempt and happens then; the race ends by the overall deadline")

    def add(n, outs=None, tag="", restricted=False):
        what = f"{n} candidate(s), " + ("each accepting / failing / never completing" if outs is None else "outcomes " + "/".join(outs))
        cfgtxt = ("no overall timeout; initial concurrency 1 or 2" if restricted else "overall timeout none or symbolic >= 0; initial concurrency none or 0..n")
        obs.append({"name": f"{which.lower()}_eyeballs_{n}_candidates{tag}", "family": "eyeballs", "funcs": funcs,
                    "bound": what + " with symbolic latencies >= 0; stagger delay none or symbolic >= 0; " + cfgtxt + "; simultaneous events delivered together or one by one",
                    "doc": doc, "run": mk_run(n, outs, restricted), "check": check, "crosscheck": False, "max_paths": 2000000, "loop_bound": 60,
                    "cex_extract": scenario, "judge": judge})

    for n in (0, 1, 2):
        add(n)
    if os.environ.get("EYEBALLS_N3", "1") == "1":
        for outs in itertools.product(("ok", "err", "never"), repeat=3):
            add(3, list(outs), "_" + "".join(o[0] for o in outs))
    n4 = os.environ.get("EYEBALLS_N4", "all" if tier == "thorough" else "some")
    if n4 != "0":
        combos = list(itertools.product(("ok", "err", "never"), repeat=4))
        if n4 == "some":
            # quick tier: the outcome patterns with at least two failures (a later failure must still start the next candidate)
            combos = [c for c in combos if c.count("err") >= 2]
        for outs in combos:
            add(4, list(outs), "_" + "".join(o[0] for o in outs), restricted=True)
    return obs


def concrete_violations(scn, out):
    """the same two groups of assertions on the concrete observations of a native run (times in ms)"""
    outcomes = [x for x in str(scn.get("outcomes", "")).split(",") if x]
    lat = [int(x) for x in str(scn.get("latencies", "")).split(",") if x != ""]
    n = len(outcomes)

    def optint(k):
        v = str(scn.get(k, "none"))
        return None if v == "none" else int(v)
    delay, timeout, ic = optint("delay"), optint("timeout"), optint("concurrency")
    race = out.get("race", "")
    end = int(out.get("end", "0"))
    started = [None if x == "-" else int(x) for x in out.get("started", "").split(",") if x != ""]
    started += [None] * (n - len(started))
    T = [None if (started[k] is None or outcomes[k] == "never") else started[k] + lat[k] for k in range(n)]
    v10, v11 = [], []
    ok_started = [k for k in range(n) if outcomes[k] == "ok" and started[k] is not None]
    kind, _, arg = race.partition(":")
    if kind == "hang":
        if timeout is not None:
            v10.append("race never completes although an overall timeout is configured")
        v10 += [f"candidate {k} accepted but the race never reported it" for k in ok_started]
    elif kind == "ok":
        k = int(arg)
        if outcomes[k] != "ok" or started[k] is None:
            v10.append(f"success reported for candidate {k} which did not accept")
        else:
            v10 += [f"candidate {j} accepted strictly before the reported winner {k}" for j in ok_started if j != k and T[j] < T[k]]
    elif kind == "error":
        k = int(arg)
        if not all(o == "err" for o in outcomes) or any(s_ is None for s_ in started):
            v10.append("failure reported although not every candidate had been tried and had failed")
        else:
            v10 += [f"candidate {j} failed strictly earlier than the reported error {k}" for j in range(n) if j != k and T[j] < T[k]]
    elif kind == "timeout":
        if timeout is None:
            v10.append("timeout reported although no overall timeout is configured")
        elif end < timeout:
            v10.append("timeout reported before the overall deadline")
    elif kind == "noprogress":
        if n != 0:
            v10.append("no-progress error although there were candidates")
    if kind in ("error", "timeout", "noprogress"):
        v10 += [f"candidate {k} accepted strictly before the race ended, yet the race failed" for k in ok_started if T[k] < end]
    if n == 0 and kind != "noprogress":
        v10.append("with no candidates the race must fail with no-progress")
    # pacing
    idx = [k for k in range(n) if started[k] is not None]
    if idx != list(range(len(idx))) or any(started[a] > started[b] for a, b in zip(idx, idx[1:])):
        v11.append("candidates were not started in the given order")
    ic_eff = n if ic is None else min(ic, n)
    for k in range(n):
        if started[k] is None:
            continue
        if k < ic_eff:
            if started[k] != 0:
                v11.append(f"candidate {k} of the initial batch was not started at the beginning")
            continue
        prev = started[k - 1] if k > 0 else 0
        if prev is None:
            v11.append(f"candidate {k} started although candidate {k - 1} never was")
            continue
        reasons = []
        if delay is not None:
            reasons.append(started[k] == prev + delay)
            if started[k] > prev + delay:
                v11.append(f"candidate {k} was started later than the stagger delay after candidate {k - 1}")
        reasons += [T[j] is not None and outcomes[j] == "err" and T[j] == started[k] and T[j] >= prev for j in range(k)]
        if k == 0 or all(outcomes[j] == "err" for j in range(k)):
            reasons.append(all(T[j] is not None and T[j] <= started[k] for j in range(k)))
        if not any(reasons):
            v11.append(f"candidate {k} was started before the stagger delay elapsed and without a running attempt having failed")
    for k in range(1, n):
        if started[k] is None and started[k - 1] is not None:
            prev = started[k - 1]
            if delay is not None and prev + delay < end:
                v11.append(f"candidate {k} was never started although the stagger delay elapsed before the race ended")
            v11 += [f"candidate {k} was never started although candidate {j} failed while it was queued" for j in range(k)
                    if outcomes[j] == "err" and T[j] is not None and prev < T[j] < end]
    if timeout is not None:
        if kind == "hang":
            v11.append("the race was still running after the overall deadline")
        elif end > timeout:
            v11.append("the race completed later than the overall deadline")
    return v10, v11


def judge(scn, out):
    if out.get("result", "").startswith(("panic", "crash")):
        return True
    if "race" not in out:
        return None
    v10, v11 = concrete_violations(scn, out)
    claim = scn.get("claim", "")
    if "[C11]" in claim:
        return bool(v11)
    if "[C10]" in claim:
        return bool(v10)
    return bool(v10 or v11)
