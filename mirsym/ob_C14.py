"""C14: a waiting request takes a freed connection (see ob_sched.py)"""
import os

import ob_sched


def obligations(prog, src, tier, seed):
    depth = int(os.environ.get("SCHED_DEPTH", "4" if tier == "quick" else "6"))
    obs = ob_sched.obligations(prog, src, tier, seed, "C14", n_req=2, depth=depth, classes=("C14",))
    if tier == "thorough":
        # three requests: the schedules that exposed finding 12 (a sibling attempt abandoned while a third request dials)
        obs += [dict(o, name=o["name"] + "_3req") for o in ob_sched.obligations(prog, src, tier, seed, "C14", n_req=3, depth=5, classes=("C14",)) if "schedules" in o["name"]]
    return obs
