"""C14: a waiting request takes a freed connection (see ob_sched.py)"""
import os

import ob_sched


def obligations(prog, src, tier, seed):
    depth = int(os.environ.get("SCHED_DEPTH", "4" if tier == "quick" else "6"))
    return ob_sched.obligations(prog, src, tier, seed, "C14", n_req=2, depth=depth, classes=("C14",))
