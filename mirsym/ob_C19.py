"""C19 (pool clause): a request dropped by the timeout layer leaves the pool able to serve its origin (see ob_sched.py)"""
import ob_sched


def obligations(prog, src, tier, seed):
    return ob_sched.obligations(prog, src, tier, seed, "C19", classes=("C19",))
