"""Bounded model checking of the connection pool's protocol over its real MIR.

A small "world" (one pool, N requests, the background tasks they spawn) is driven by a scheduler
whose every choice - which request is issued / polled / cancelled next, when a dial completes and
how, when a connection is released and in what state, when a background task runs - is a decision
of the path-wise executor.  The functions executed are hyperdriver's own: Pool::checkout,
Checkout::poll, Waiting::poll, PinnedDrop for Checkout, register_connected, Pooled::drop,
WhenReady::{poll,drop}, PoolInner::{push,pop,cancel_connection,...}.  Transport dials, the oneshot
channel and task wake-ups are models; a task is only polled when something woke it, as on a real
executor, so a lost wake-up or a request nobody will ever wake shows up as a stranded request at
quiescence.
"""
import z3

import pool_models  # noqa: F401
from interp import Agg, Cell, Enum, Inconclusive, Opaque, Panic, Ref, UNIT, none, some
from models import MODELS, OneshotSenderV, VecDequeV, deref, err, model, ok
from ob_pool import config, connecting, idle_conns, token, token_value, waiters
from pool_models import HashMapV, OneshotReceiverV, PConnV, SharedV, WeakV


# ---------------------------------------------------------------------------------------------------
# world-aware models
# ---------------------------------------------------------------------------------------------------
def task_of(ctx, cx):
    c = deref(ctx, cx)
    if isinstance(c, Agg) and c.kind == "Context":
        return c.f[0]
    return None


def wake(ctx, task):
    w = getattr(ctx, "world", None)
    if w is not None and task is not None:
        w.woken.add(task)


@model("<Receiver as Future>::poll", doc="tokio oneshot: Ready(Ok(v)) once a value was sent, Ready(Err) once the sender is gone without sending, else Pending and the polling task is registered to be woken")
def _rx_poll(ctx, a, c):
    rx = deref(ctx, a[0])
    if not isinstance(rx, OneshotReceiverV):
        raise Inconclusive("Receiver::poll on " + repr(rx))
    s = rx.sender
    if s.sent is not None and not getattr(rx, "taken", False):
        rx.taken = True
        return Enum("Poll", "Ready", 0, [ok(s.sent)])
    if s.dropped or getattr(rx, "closed", False):
        return Enum("Poll", "Ready", 0, [err(Opaque("RecvError"))])
    rx.waiter = task_of(ctx, a[1])
    return Enum("Poll", "Pending", 1, [])


@model("Receiver::close", doc="tokio oneshot: the sender observes the channel as closed from now on")
def _rx_close(ctx, a, c):
    rx = deref(ctx, a[0])
    rx.closed = True
    rx.sender.alive = z3.BoolVal(False)
    return UNIT


_old_send = MODELS["Sender::send"]


@model("Sender::send", doc="tokio oneshot: delivers iff the receiver is still there; wakes the receiving task")
def _send(ctx, a, c):
    s = a[0]
    r = _old_send(ctx, a, c)
    if isinstance(s, OneshotSenderV) and s.sent is not None:
        rx = getattr(s, "rx", None)
        if rx is not None:
            wake(ctx, getattr(rx, "waiter", None))
    return r


_orig_sender_drop = OneshotSenderV.mir_drop


def _sender_drop(self, ctx):
    self.dropped = True
    rx = getattr(self, "rx", None)
    if rx is not None and self.sent is None:
        wake(ctx, getattr(rx, "waiter", None))


OneshotSenderV.mir_drop = _sender_drop

_old_channel = MODELS["oneshot::channel"]


@model("oneshot::channel", "tokio::sync::oneshot::channel", doc="tokio: connected (Sender, Receiver) pair")
def _channel(ctx, a, c):
    pair = _old_channel(ctx, a, c)
    pair.f[0].rx = pair.f[1]
    return pair


class ConnectorV:
    """mock of client::conn::Connector: a dial whose outcome the scheduler decides"""

    def __init__(self, world, req, multiplex, origin):
        self.world, self.req, self.multiplex, self.origin = world, req, multiplex, origin
        self.state = "new"  # new -> dialing -> done | dropped
        self.outcome = None
        self.waiter = None

    def mir_drop(self, ctx):
        if self.state != "done":
            self.state = "dropped"

    def mir_field(self, k):
        """library code that looks into the connector (round 7: a `has_started()` helper matching on
        `self.state`) sees the abstract dial state as the corresponding `ConnectorState` variant"""
        if k == 0:
            if self.state == "new":
                return Enum("ConnectorState", "PollReadyTransport", 0, [Opaque("parts"), Opaque("transport"), Opaque("protocol")])
            if self.state == "dialing":
                return Enum("ConnectorState", "Connect", 1, [Opaque("future"), Opaque("protocol")])
            return Enum("ConnectorState", "Handshake", 3, [Opaque("future"), Opaque("info")])
        if k == 2:
            return z3.BoolVal(bool(self.multiplex))
        return Opaque(f"connector.{k}")


@model("Connector::poll_connector", doc="mock connector: first poll starts the dial; Pending until the scheduler completes it (ok: a fresh connection for the request's origin and protocol; err: Error::Connecting)")
def _poll_connector(ctx, a, c):
    k = deref(ctx, a[0])
    if not isinstance(k, ConnectorV):
        raise Inconclusive("poll_connector on " + repr(k))
    w = k.world
    if k.state == "new":
        k.state = "dialing"
        w.dials_started.append(k)
    if k.outcome is None:
        k.waiter = task_of(ctx, a[3])
        return Enum("Poll", "Pending", 1, [])
    k.state = "done"
    if k.outcome == "ok":
        cid = w.next_conn
        w.next_conn += 1
        conn = PConnV(cid, k.multiplex, z3.BoolVal(True), ["ok"])
        conn.origin_key = k.origin
        conn.open_now = True
        w.conns[cid] = conn
        return Enum("Poll", "Ready", 0, [ok(conn)])
    return Enum("Poll", "Ready", 0, [err(Agg("struct:ConnectingError", []))])


@model("<C as PoolableConnection>::is_open", "PoolableConnection::is_open", doc="mock connection: open until the scheduler closes it")
def _is_open(ctx, a, c):
    x = deref(ctx, a[0])
    o = x.origin
    if hasattr(o, "open_now"):
        return z3.BoolVal(o.open_now)
    return x.is_open


# ---------------------------------------------------------------------------------------------------
# the world
# ---------------------------------------------------------------------------------------------------
class World:
    def __init__(self, ctx, fns, cont, max_idle=8):
        self.ctx, self.fns = ctx, fns
        self.cont = cont
        self.max_idle = max_idle
        inner = Agg("struct:PoolInner", [config(none(), z3.BitVecVal(max_idle, 64), cont), HashMapV(), HashMapV(), HashMapV()])
        self.shared = SharedV(inner, "pool")
        tm = HashMapV()
        self.keys = SharedV(Agg("struct:TokenMap", [z3.BitVecVal(1, 64), tm]), "keys")
        self.pool = Cell(Agg("struct:Pool", [self.shared, self.keys]), "pool")
        self.reqs = []  # dicts
        self.bg = []  # background tasks
        self.woken = set()
        self.dials_started = []
        self.conns = {}
        self.next_conn = 100
        self.trace = []
        self.viol = []

    @property
    def inner(self):
        return self.shared.cell.v

    def cx(self, task):
        return Ref(Cell(Agg("Context", [task]), "cx"))

    # ---- actions -----------------------------------------------------------------------------
    def issue(self, proto, origin):
        i = len(self.reqs)
        k = ConnectorV(self, i, proto == "h2", origin)
        co = self.ctx.exec_fn(self.fns["checkout"], [Ref(self.pool), z3.BitVecVal(origin, 64), z3.BoolVal(proto == "h2"), k])
        # `kept`: Pool::checkout left the connector with the checkout (it is the request's own attempt, started
        # or not); a pure waiter / an idle hit drops it right away
        k.kept = k.state != "dropped"
        self.reqs.append({"i": i, "proto": proto, "origin": origin, "state": "active", "cell": Cell(co, f"checkout{i}"), "connector": k, "held": None, "result": None})
        self.woken.add(("req", i))
        self.collect_spawned()

    def poll(self, i):
        r = self.reqs[i]
        self.woken.discard(("req", i))
        res = self.ctx.exec_fn(self.fns["checkout_poll"], [Ref(r["cell"]), self.cx(("req", i))])
        if res.variant == "Ready":
            out = res.f[0]
            co = r["cell"].v
            r["cell"].v = None
            if out.variant == "Ok":
                pooled = out.f[0]
                r["state"] = "holding"
                r["held"] = Cell(pooled, f"pooled{i}")
                conn = deref(self.ctx, pooled.f[0].f[0]) if pooled.f[0].variant == "Some" else None
                r["conn"] = conn
                self.on_delivery(r, conn)
            else:
                r["state"] = "failed"
            # the completed future is dropped by its owner
            self.ctx.drop_value(co)
        self.collect_spawned()

    def cancel(self, i):
        r = self.reqs[i]
        co = r["cell"].v
        r["cell"].v = None
        r["state"] = "cancelled"
        self.woken.discard(("req", i))
        self.ctx.drop_value(co)
        self.collect_spawned()

    def finish_dial(self, k, outcome):
        k.outcome = outcome
        if k.waiter is not None:
            self.woken.add(k.waiter)

    def release(self, i, closed):
        r = self.reqs[i]
        conn = r["conn"]
        if conn is not None and closed:
            conn.origin.open_now = False
            conn.ready = ["err"]
        elif conn is not None:
            conn.ready = ["ok"]
        pooled = r["held"].v
        r["held"] = None
        r["state"] = "done"
        self.ctx.drop_value(pooled)
        self.collect_spawned()

    def collect_spawned(self):
        sp = getattr(self.ctx, "spawned", [])
        while sp:
            t = sp.pop(0)
            j = len(self.bg)
            if isinstance(t, Agg) and t.kind.startswith("closure:{coroutine@") or (isinstance(t, Agg) and t.kind.startswith("closure:{async")):
                # `async move { checkout.await }`: polled like the checkout it wraps
                self.bg.append({"kind": "delayed", "cell": Cell(t.f[0], f"delayed{j}"), "done": False})
            elif isinstance(t, Agg) and t.kind == "struct:WhenReady":
                self.bg.append({"kind": "whenready", "cell": Cell(t, f"whenready{j}"), "done": False})
            else:
                raise Inconclusive("unknown spawned task " + repr(t)[:80])
            self.woken.add(("bg", j))
        self.ctx.spawned = []

    def run_bg(self, j):
        t = self.bg[j]
        self.woken.discard(("bg", j))
        if t["kind"] == "whenready":
            res = self.ctx.exec_fn(self.fns["wr_poll"], [Ref(t["cell"]), self.cx(("bg", j))])
            if res.variant == "Ready":
                v = t["cell"].v
                t["cell"].v = None
                t["done"] = True
                self.ctx.drop_value(v)
        else:
            res = self.ctx.exec_fn(self.fns["checkout_poll"], [Ref(t["cell"]), self.cx(("bg", j))])
            if res.variant == "Ready":
                co = t["cell"].v
                t["cell"].v = None
                t["done"] = True
                out = res.f[0]
                if out.variant == "Ok":
                    # the spawned block drops the connection it obtained: it goes back to the pool
                    self.ctx.drop_value(out.f[0])
                self.ctx.drop_value(co)
        self.collect_spawned()

    # ---- observations -------------------------------------------------------------------------
    def on_delivery(self, r, conn):
        if conn is None:
            self.viol.append(("C02", f"request {r['i']} completed with an empty connection handle"))
            return
        if conn.origin.origin_key != r["origin"]:
            self.viol.append(("C06", f"request {r['i']} for origin {r['origin']} was given a connection dialed for origin {conn.origin.origin_key}"))
        if not conn.origin.open_now:
            self.viol.append(("C05", f"request {r['i']} was given connection {conn.cid} which had already been closed"))
        if not conn.share:
            for o in self.reqs:
                if o is not r and o["state"] == "holding" and o.get("conn") is not None and o["conn"].cid == conn.cid:
                    self.viol.append(("C02", f"non-multiplexed connection {conn.cid} held by requests {o['i']} and {r['i']} at the same time"))

    def pending_delivery(self, r):
        co = r["cell"].v
        if co is None:
            return False
        # a checkout that was handed an idle connection when it was created is served already
        if isinstance(co.f[4], Enum) and co.f[4].variant == "Some":
            return True
        w = co.f[2]
        if isinstance(w, Enum) and w.f and isinstance(w.f[0], OneshotReceiverV):
            return w.f[0].sender.sent is not None
        return False

    def invariants(self):
        # at most one multiplexed dial in flight per origin (C04: later requests wait instead of dialing)
        by = {}
        for k in self.dials_started:
            if k.state == "dialing" and k.multiplex:
                by.setdefault(k.origin, []).append(k)
        for o, ks in by.items():
            if len(ks) > 1:
                self.viol.append(("C04", f"{len(ks)} HTTP/2 connection attempts in flight for one origin at the same time (requests {[k.req for k in ks]})"))
        # C14: an open idle connection never coexists with a request of that origin that is still waiting
        tokmap = {token_value(c.v): z3.simplify(k).as_long() for k, c in self.keys.cell.v.f[1].entries}
        for tok, origin in tokmap.items():
            idle_open = [c for c in idle_conns(self.inner, tok) if c.origin.open_now]
            # a request to which a connection has been delivered (not yet read) is not waiting any more
            waiting_reqs = [r["i"] for r in self.reqs if r["state"] == "active" and r["origin"] == origin and not self.pending_delivery(r)]
            if idle_open and waiting_reqs:
                self.viol.append(("C14", f"connection {idle_open[0].cid} sits idle in the pool while request(s) {waiting_reqs} for the same origin are still waiting for a connection"))
        # an open connection released by a finished request is kept (idle) or handed to a waiting request - never dropped
        for cid, conn in self.conns.items():
            if not conn.share and conn.dropped and getattr(conn.origin, "open_now", False) and not getattr(conn, "drop_reported", False):
                conn.drop_reported = True
                msg = f"open connection {cid} was dropped when it was released instead of being kept for reuse or handed to a waiting request"
                self.viol.append(("C04", msg))
                self.viol.append(("C14", msg))
        # C15: at no time more idle connections for one origin than max_idle_per_host
        for tok in (1, 2):
            n_idle = len(idle_conns(self.inner, tok))
            if n_idle > self.max_idle and not getattr(self, "c15_reported", False):
                self.c15_reported = True
                self.viol.append(("C15", f"{n_idle} idle connections are kept for one origin although max_idle_per_host is {self.max_idle}"))
        # a non-shareable connection is in at most one place
        for cid, conn in self.conns.items():
            if conn.share:
                continue
            places = sum(1 for r in self.reqs if r["state"] == "holding" and r.get("conn") is not None and r["conn"].cid == cid)
            for tok in (1, 2):
                places += sum(1 for c in idle_conns(self.inner, tok) if c.cid == cid)
            if places > 1:
                self.viol.append(("C02", f"non-multiplexed connection {cid} is in {places} places at once"))

    def enabled(self, budget_issue, protos, origins):
        acts = []
        if len(self.reqs) < budget_issue:
            for p in protos:
                for o in origins:
                    acts.append(("issue", p, o))
        for r in self.reqs:
            if r["state"] == "active":
                if ("req", r["i"]) in self.woken:
                    acts.append(("poll", r["i"]))
                acts.append(("cancel", r["i"]))
            if r["state"] == "holding":
                acts.append(("release", r["i"], False))
                if not r["conn"].share:
                    acts.append(("release", r["i"], True))
        for n, k in enumerate(self.dials_started):
            if k.state == "dialing" and k.outcome is None:
                acts.append(("dial", n, "ok"))
                acts.append(("dial", n, "err"))
        for j, t in enumerate(self.bg):
            if not t["done"] and ("bg", j) in self.woken:
                acts.append(("bg", j))
        return acts

    def apply(self, a):
        self.trace.append(a)
        if a[0] == "issue":
            self.issue(a[1], a[2])
        elif a[0] == "poll":
            self.poll(a[1])
        elif a[0] == "cancel":
            self.cancel(a[1])
        elif a[0] == "release":
            self.release(a[1], a[2])
        elif a[0] == "dial":
            self.finish_dial(self.dials_started[a[1]], a[2])
        elif a[0] == "bg":
            self.run_bg(a[1])
        self.invariants()

    def drain_tasks(self):
        """run every woken task to quiescence (no dial is completed)"""
        for _ in range(40):
            progressed = False
            for r in self.reqs:
                if r["state"] == "active" and ("req", r["i"]) in self.woken:
                    self.apply(("poll", r["i"]))
                    progressed = True
            for j, t in enumerate(self.bg):
                if not t["done"] and ("bg", j) in self.woken:
                    self.apply(("bg", j))
                    progressed = True
            if not progressed:
                return
        raise Inconclusive("tasks did not reach quiescence in 40 rounds")

    def drain(self):
        """let everything that can still happen happen: dials complete successfully, woken tasks run"""
        for _ in range(40):
            progressed = False
            for k in self.dials_started:
                if k.state == "dialing" and k.outcome is None:
                    self.finish_dial(k, "ok")
                    progressed = True
            for r in self.reqs:
                if r["state"] == "active" and ("req", r["i"]) in self.woken:
                    self.trace.append(("drain-poll", r["i"]))
                    self.poll(r["i"])
                    self.invariants()
                    progressed = True
            for j, t in enumerate(self.bg):
                if not t["done"] and ("bg", j) in self.woken:
                    self.trace.append(("drain-bg", j))
                    self.run_bg(j)
                    self.invariants()
                    progressed = True
            if not progressed:
                return
        raise Inconclusive("drain did not reach quiescence in 40 rounds")


def scenario_of(cont):
    def ex(p, m):
        """the violation classes that have a public-API replay"""
        w = p.value if p.outcome != "panic" else None
        tr = w.trace if w is not None else []
        issues = [a for a in tr if a[0] == "issue"]
        scn = {"cont": int(cont)}
        dial_err = [n for n, a in enumerate(tr) if a[0] == "dial" and a[2] == "err"]
        cancel0 = [n for n, a in enumerate(tr) if a[0] == "cancel" and a[1] == 0]
        if dial_err and cancel0 and cancel0[0] < dial_err[0]:
            scn["how"] = "cancel+dial_err"
        elif dial_err:
            scn["how"] = "dial_err"
        else:
            scn["how"] = "cancel"
        events = dial_err + cancel0
        second_issue = [n for n, a in enumerate(tr) if a[0] == "issue"][1:2]
        if events and second_issue and second_issue[0] > max(events):
            scn["r1_when"] = "after"
        if len(issues) > 1:
            scn["r1"] = issues[1][1]
        scn["family"] = "pool_stranded_waiter"
        scn["schedule"] = str(tr)
        if w is not None and any(c == "C14" for c, _ in w.viol):
            scn["family"] = "pool_preempt"
            if any("was dropped when it was released" in msg for _c, msg in w.viol):
                scn["chain"] = 1
            protos = [a[1] for a in issues]
            if any(a[0] == "cancel" and a[1] < len(protos) and protos[a[1]] == "h2" for a in tr):
                scn["abandon"] = "h2"
        if w is not None and w.cont and any(r["connector"].state == "dropped" and getattr(r["connector"], "kept", False) and r["connector"] not in w.dials_started for r in w.reqs):
            # an attempt that had not started yet was discarded with its cancelled request
            return {"family": "pool_bg_unpolled", "cont": 1, "how": "cancel", "schedule": str(tr)}
        if w is not None and w.cont and any(k.state == "dropped" for k in w.dials_started):
            return {"family": "pool_bg_attempt", "cont": 1, "schedule": str(tr)}
        if w is not None and not w.cont and any(t["kind"] == "delayed" for t in w.bg):
            return {"family": "pool_bg_attempt", "cont": 0, "schedule": str(tr)}
        if w is not None and any("was dropped when it was released" in msg for _c, msg in w.viol):
            scn["family"], scn["chain"] = "pool_preempt", 1
            return scn
        if w is not None and any(c == "C04" for c, _ in w.viol):
            scn["family"] = "pool_extra_dial"
            cancels = [a[1] for a in tr if a[0] == "cancel"]
            scn["cancel"] = "owner" if 0 in cancels and issues and issues[0][1] == "h2" else "waiter"
        return scn
    return ex


def judge_bg(scn, out):
    """second clause of C14: with continue_after_preemption the abandoned attempt's connection is in the pool
    afterwards (no further dial for two overlapping requests), without it nothing is left (one further dial)"""
    if "extra_dials" not in out:
        return None
    extra = int(out["extra_dials"])
    return extra > 0 if str(scn.get("cont")) == "1" else extra == 0


def judge_sched(scn, out):
    if out.get("result", "").startswith(("panic", "crash")):
        return True
    if scn.get("family") in ("pool_bg_attempt", "pool_bg_unpolled"):
        return judge_bg(scn, out)
    claim = scn.get("claim", "")
    if "was dropped when it was released" in claim:
        return out.get("r2") == "timeout" or out.get("r1") == "timeout"
    if "[C03]" in claim:
        return out.get("r1") == "timeout"
    if "[C04]" in claim:
        return int(out.get("dials", "1")) > 1
    if "was dropped when it was released" in claim:
        return out.get("r2") == "timeout" or out.get("r1") == "timeout"
    if "[C14]" in claim:
        return out.get("r1") == "timeout"
    return None


def obligations(prog, src, tier, seed, which="C03", n_req=2, depth=5, classes=("C02", "C03", "C04", "C05", "C06", "C14"), origins=(10,)):
    PM = r"pool::<impl at src/client/pool/mod\.rs:\d+:\d+: \d+:\d+>::"
    CK = r"checkout::<impl at src/client/pool/checkout\.rs:\d+:\d+: \d+:\d+>::"
    fns = {
        "checkout": prog.find_one(PM + r"checkout$", r"&Pool<"),
        "checkout_poll": prog.find_one(CK + r"poll$", r"Pin<&mut Checkout<"),
        "wr_poll": prog.find_one(PM + r"poll$", r"WhenReady"),
    }
    drop_impls = {
        "struct:Pooled": prog.find_one(PM + r"drop$", r"&mut Pooled<"),
        "struct:WhenReady": prog.find_one(PM + r"drop$", r"&mut pool::WhenReady<"),
        "struct:Checkout": prog.find_one(r"checkout::_::<impl at src/client/pool/checkout\.rs:\d+:\d+: \d+:\d+>::drop$", r"&mut Checkout<"),
    }

    def mk_run(cont, protos, origins, n_req, depth, probe=True):
        def run(ctx):
            ctx.drop_impls = drop_impls
            ctx.now = z3.IntVal(0)
            w = World(ctx, fns, cont)
            ctx.world = w
            for step in range(depth):
                acts = w.enabled(n_req, protos, origins)
                if not acts:
                    break
                # the scheduler's k-th choice is a solver variable ranging over the enabled actions;
                # the executor forks on it like on any other symbolic switch, and a counterexample's
                # schedule is the model's assignment to sched_step_0..k
                sv = z3.Int(f"sched_step_{step}")
                a = ctx.choose([(sv == i, x) for i, x in enumerate(acts)], "action")
                w.apply(a)
            w.free_trace = list(w.trace)
            w.drain()
            # "... followed by draining all outstanding attempts and issuing a fresh probe request":
            # whatever was cancelled or failed before, a new request to the origin must still complete
            if probe:
                pv = z3.Int("probe_protocol")
                proto = ctx.choose([(pv == i, x) for i, x in enumerate(protos)], "probe")
                w.apply(("issue", proto, origins[0]))
                w.reqs[-1]["probe"] = True
                w.drain()
            return w
        return run

    def check(p):
        if p.outcome == "panic":
            return [("pool protocol panics / deadlocks: " + str(p.value)[:100], False)]
        w = p.value
        props = []
        for prop, msg in w.viol:
            if prop in classes:
                props.append((f"[{prop}] {msg}  -- schedule: {w.trace}", False))
        stranded = [r["i"] for r in w.reqs if r["state"] == "active"]
        if "C14" in classes:
            # second clause of C14: what becomes of an attempt whose request was pre-empted or cancelled
            if w.cont:
                for k in [r["connector"] for r in w.reqs]:
                    if k.state == "dropped" and (k in w.dials_started or getattr(k, "kept", False)):
                        props.append((f"[C14] continue_after_preemption is on, yet the connection attempt of request {k.req} ({'started' if k in w.dials_started else 'not yet started'}) was dropped when the request was pre-empted / cancelled instead of completing in the background  -- schedule: {w.trace}", False))
            else:
                for t in w.bg:
                    if t["kind"] == "delayed":
                        props.append((f"[C14] continue_after_preemption is off, yet an abandoned attempt was kept running in the background  -- schedule: {w.trace}", False))
        if "C03" in classes:
            props.append((f"[C03] request(s) {stranded} never obtain a connection or an error although every dial has completed and no task is runnable -- schedule: {w.trace}", not stranded))
        props.append(("pool mutex left locked", not w.shared.locked and not w.keys.locked))
        props.append(("witness:reach", z3.BoolVal(True)))
        return props

    obs = []
    if "C14" in classes:
        f_push = prog.find_one(PM + r"push$", r"PoolInner")

        def run_preempt(ctx):
            cont = ctx.choose([(True, False), (True, True)], "continue_after_preemption")
            polls_before = ctx.choose([(True, 0), (True, 1), (True, 2)], "polls before the release")
            proto = ctx.choose([(True, "h1"), (True, "h2")], "waiting request's protocol")
            ctx.drop_impls = drop_impls
            ctx.now = z3.IntVal(0)
            w = World(ctx, fns, cont)
            ctx.world = w
            abandon = ctx.choose([(True, "none"), (True, "h1"), (True, "h2")], "another request's attempt started and cancelled meanwhile")
            abandon_polled = ctx.choose([(True, False), (True, True)], "that request was polled") if abandon != "none" else False
            ctx.cfg = (cont, polls_before, proto, abandon, abandon_polled)
            w.issue(proto, 10)
            for _ in range(polls_before):
                w.woken.add(("req", 0))
                w.poll(0)
            if abandon != "none":
                w.apply(("issue", abandon, 10))
                if abandon_polled:
                    w.apply(("poll", 1))
                w.apply(("cancel", 1))
            if w.reqs[0]["state"] != "active":
                raise Inconclusive("request resolved without a connection")
            # another request's connection for the same origin is released now
            conn = PConnV(50, False, z3.BoolVal(True), ["ok"])
            conn.origin_key, conn.open_now = 10, True
            w.conns[50] = conn
            g = pool_models._lock(ctx, w.shared)
            ctx.exec_fn(f_push, [Ref(w.shared.cell), token(1), conn, Agg("struct:PoolRef", [Agg("struct:WeakOpt", [some(WeakV(w.shared))])])])
            g.mir_drop(ctx)
            # ... and the waiting request is polled once more
            w.woken.add(("req", 0))
            w.poll(0)
            return w

        def extract_preempt(p, m):
            w = p.value if p.outcome != "panic" else None
            cont = p.ctx.cfg[0]
            if w is not None:
                own = [k for k in w.dials_started if k.req == 0]
                r = w.reqs[0]
                if not own and cont and getattr(r["connector"], "kept", False) and r["connector"].state == "dropped":
                    return {"family": "pool_bg_unpolled", "cont": 1, "how": "preempt"}
                served = r["state"] == "holding" and r.get("conn") is not None and r["conn"].cid == 50
                if served and own and ((cont and own[0].state == "dropped") or (not cont and any(t["kind"] == "delayed" for t in w.bg))):
                    return {"family": "pool_bg_attempt", "cont": int(cont)}
            return dict({"family": "pool_preempt", "cont": int(cont)}, **({"abandon": p.ctx.cfg[3]} if p.ctx.cfg[3] != "none" else {}))

        def check_preempt(p):
            if p.outcome == "panic":
                return [("pool protocol panics / deadlocks: " + str(p.value)[:100], False)]
            w = p.value
            r = w.reqs[0]
            cont, polls_before, proto, abandon, abandon_polled = p.ctx.cfg
            got = r.get("conn").cid if r["state"] == "holding" and r.get("conn") is not None else None
            fate = []
            own = [k for k in w.dials_started if k.req == 0]
            if not own and cont and getattr(r["connector"], "kept", False):
                # pre-empted before its first poll: the attempt it held has not started yet, it still is the
                # request's attempt and continues in the background when the setting is on
                own = [r["connector"]]
            if own:
                if cont:
                    fate.append((f"[C14] continue_after_preemption is on, yet the pre-empted request's own attempt was dropped instead of continuing in the background ({proto} request, polled {polls_before}x)", own[0].state != "dropped"))
                else:
                    fate.append((f"[C14] continue_after_preemption is off, yet the pre-empted request's own attempt was kept ({proto} request)", own[0].state == "dropped" and not any(t["kind"] == "delayed" for t in w.bg)))
            return fate + [(f"[C14] a request still waiting for its own dial (polled {polls_before}x before) was not served by the connection released for its origin at its next poll (state {r['state']}, connection {got}; {proto} request, continue_after_preemption={cont}, abandoned attempt meanwhile: {abandon}{' (polled)' if abandon_polled else ''})", got == 50),
                    ("witness:reach", z3.BoolVal(True))]

        obs.append({"name": f"{which.lower()}_preempt_by_released_connection", "family": "pool_preempt",
                    "funcs": ["client::pool::Pool::checkout", "<Checkout as Future>::poll", "<Waiting as Future>::poll", "client::pool::PoolInner::push"],
                    "bound": "one request (HTTP/1.1 or HTTP/2) dialing its own connection, polled 0, 1 or 2 times while the dial is pending; optionally a second request (HTTP/1.1 or HTTP/2, polled or not) is issued and cancelled; then an open connection for its origin is released; then one more poll; both continue_after_preemption settings",
                    "doc": "the waiting request takes the released connection no later than its next poll, however often it was polled before",
                    "run": run_preempt, "check": check_preempt, "crosscheck": False,
                    "cex_extract": extract_preempt,
                    "judge": lambda scn, out: out.get("result", "").startswith(("panic", "crash")) or (judge_bg(scn, out) if scn.get("family") in ("pool_bg_attempt", "pool_bg_unpolled") else out.get("r1") == "timeout")})
    if "C14" in classes or "C04" in classes:
        def run_chain(ctx):
            cont = ctx.choose([(True, False), (True, True)], "continue_after_preemption")
            b_polled = ctx.choose([(True, True), (True, False)], "second request polled before the release")
            ctx.drop_impls = drop_impls
            ctx.now = z3.IntVal(0)
            w = World(ctx, fns, cont)
            ctx.world = w
            ctx.cfg = (cont, b_polled)
            # A gets a connection of its own and holds it
            w.apply(("issue", "h1", 10))
            w.apply(("poll", 0))
            w.apply(("dial", 0, "ok"))
            w.apply(("poll", 0))
            # B starts dialing, A releases: B is served by A's connection
            w.apply(("issue", "h1", 10))
            if b_polled:
                w.apply(("poll", 1))
            w.apply(("release", 0, False))
            w.drain_tasks()
            if w.reqs[1]["state"] != "holding":
                raise Inconclusive("second request was not served by the released connection (state %s)" % w.reqs[1]["state"])
            ctx.first_conn = w.reqs[1]["conn"].cid
            # B finishes in turn: the connection must go back to the pool (or on to a waiting request)
            w.apply(("release", 1, False))
            w.drain_tasks()
            return w

        def check_chain(p):
            if p.outcome == "panic":
                return [("pool protocol panics / deadlocks: " + str(p.value)[:100], False)]
            w = p.value
            cid = p.ctx.first_conn
            idle = [c.cid for c in idle_conns(w.inner, 1)]
            lbl = "C14" if which != "C04" else "C04"
            return [(f"[{lbl}] connection {cid}, handed from one request to a waiting one and released again, was dropped when it was released instead of going back to the pool (idle now: {idle}; continue_after_preemption={p.ctx.cfg[0]})", cid in idle),
                    ("witness:reach", z3.BoolVal(True))]

        obs.append({"name": f"{which.lower()}_handed_over_connection_returns_to_pool", "family": "pool_preempt",
                    "funcs": ["client::pool::Pool::checkout", "<Checkout as Future>::poll", "<Pooled as Drop>::drop", "<WhenReady as Future>::poll", "<WhenReady as Drop>::drop", "client::pool::PoolInner::push"],
                    "bound": "request A holds a connection, request B (polled or not) is dialing; A releases (B is served by hand-over), then B releases; both continue_after_preemption settings",
                    "doc": "a connection that reached a request by hand-over is pool-managed like any other: released again it is kept idle (or handed on), never dropped",
                    "run": run_chain, "check": check_chain, "crosscheck": False, "loop_bound": 12,
                    "cex_extract": lambda p, m: {"family": "pool_preempt", "cont": int(p.ctx.cfg[0]), "chain": 1},
                    "judge": lambda scn, out: out.get("result", "").startswith(("panic", "crash")) or out.get("r2") == "timeout" or out.get("r1") == "timeout"})
    if "C04" in classes:
        def run_waiter_cancel(ctx):
            cont = ctx.choose([(True, False), (True, True)], "continue_after_preemption")
            r0_polled = ctx.choose([(True, False), (True, True)], "owner polled")
            r1_proto = ctx.choose([(True, "h1"), (True, "h2")], "waiting request's protocol")
            r1_polls = ctx.choose([(True, 0), (True, 1)], "polls of the waiting request")
            how = ctx.choose([(True, "cancel"), (True, "none")], "waiting request cancelled")
            ctx.drop_impls = drop_impls
            ctx.now = z3.IntVal(0)
            w = World(ctx, fns, cont)
            ctx.world = w
            ctx.cfg = (cont, r0_polled, r1_proto, r1_polls, how)
            w.apply(("issue", "h2", 10))
            if r0_polled:
                w.apply(("poll", 0))
            w.apply(("issue", r1_proto, 10))
            for _ in range(r1_polls):
                w.woken.add(("req", 1))
                w.apply(("poll", 1))
            if how == "cancel":
                w.apply(("cancel", 1))
            w.apply(("issue", "h2", 10))
            w.woken.add(("req", 2))
            w.apply(("poll", 2))
            return w

        def check_waiter_cancel(p):
            if p.outcome == "panic":
                return [("pool protocol panics / deadlocks: " + str(p.value)[:100], False)]
            w = p.value
            started = [k.req for k in w.dials_started if k.state == "dialing"]
            r2 = w.reqs[2]
            return [(f"[C04] a request issued while an HTTP/2 attempt for its origin is in flight started its own dial (dials in flight for requests {started}) -- configuration {p.ctx.cfg}", 2 not in started),
                    (f"[C04] the later request is neither waiting nor served (state {r2['state']})", r2["state"] == "active"),
                    ("witness:reach", z3.BoolVal(True))]

        obs.append({"name": f"{which.lower()}_waits_for_inflight_attempt", "family": "pool_inflight_dedup",
                    "funcs": ["client::pool::Pool::checkout", "<Checkout as Future>::poll", "<Checkout as PinnedDrop>::drop", "client::pool::PoolInner::cancel_connection"],
                    "bound": "owner HTTP/2 request (polled or not), a second request (HTTP/1.1 or HTTP/2, polled 0..1 times, cancelled or not), then a third HTTP/2 request issued and polled once; both continue_after_preemption settings",
                    "doc": "while an HTTP/2 attempt is in flight a later HTTP/2 request waits for it instead of dialing, also after another waiting request was cancelled",
                    "run": run_waiter_cancel, "check": check_waiter_cancel, "crosscheck": False,
                    "cex_extract": lambda p, m: {"family": "pool_extra_dial", "cont": int(p.ctx.cfg[0]), "r1": p.ctx.cfg[2]},
                    "judge": lambda scn, out: out.get("result", "").startswith(("panic", "crash")) or int(out.get("dials", "1")) > 1})
    if "C19" in classes:
        def run_timed_out(ctx):
            cont = ctx.choose([(True, False), (True, True)], "continue_after_preemption")
            proto = ctx.choose([(True, "h1"), (True, "h2")], "protocol of the request that times out")
            stage = ctx.choose([(True, "own dial, never polled"), (True, "own dial, polled"), (True, "waiting on another request's dial"),
                                (True, "exchange in flight on its connection while another request is dialing")], "stage at expiry")
            bg_first = ctx.choose([(True, False), (True, True)], "background continuation runs before the dial completes")
            outcome = ctx.choose([(True, "ok"), (True, "err")], "outcome of the dial that was in flight")
            probe = ctx.choose([(True, "h1"), (True, "h2")], "protocol of the next request")
            ctx.drop_impls = drop_impls
            ctx.now = z3.IntVal(0)
            w = World(ctx, fns, cont)
            ctx.world = w
            ctx.cfg = (cont, proto, stage, bg_first, outcome, probe)
            if stage.startswith("exchange"):
                # the victim holds a connection and is waiting for its response; a second request is still dialing.
                # At expiry the exchange is dropped: an HTTP/1.1 connection is closed by that (hyper cancels the
                # dispatch), an HTTP/2 connection only loses the stream
                w.apply(("issue", proto, 10))
                w.apply(("poll", 0))
                w.apply(("dial", 0, "ok"))
                w.apply(("poll", 0))
                if w.reqs[0]["state"] != "holding":
                    raise Inconclusive("the first request did not obtain its connection")
                w.apply(("issue", probe, 10))
                w.apply(("poll", 1))
                w.apply(("release", 0, proto == "h1"))
                for j, t in enumerate(w.bg):
                    if not t["done"] and ("bg", j) in w.woken:
                        w.apply(("bg", j))
                for n, k in enumerate(w.dials_started):
                    if k.state == "dialing" and k.outcome is None:
                        w.apply(("dial", n, outcome))
                w.drain()
                w.apply(("issue", probe, 10))
                w.drain()
                return w
            if stage.startswith("waiting"):
                w.apply(("issue", "h2", 10))
                w.apply(("poll", 0))
                victim = 1
            else:
                victim = 0
            w.apply(("issue", proto, 10))
            if stage != "own dial, never polled":
                w.apply(("poll", victim))
            # the timeout layer drops the inner future at expiry (shown by the Kani harnesses of this property)
            w.apply(("cancel", victim))
            if bg_first:
                for j, t in enumerate(w.bg):
                    if not t["done"] and ("bg", j) in w.woken:
                        w.apply(("bg", j))
            for n, k in enumerate(w.dials_started):
                if k.state == "dialing" and k.outcome is None:
                    w.apply(("dial", n, outcome))
            w.drain()
            w.apply(("issue", probe, 10))
            w.drain()
            return w

        def check_timed_out(p):
            if p.outcome == "panic":
                return [("pool protocol panics / deadlocks: " + str(p.value)[:100], False)]
            w = p.value
            stranded = [r["i"] for r in w.reqs if r["state"] == "active"]
            inherited = [msg for tag, msg in w.viol if tag == "C05"]
            return [(f"[C19] after a request timed out ({p.ctx.cfg[2]}; {p.ctx.cfg[1]}; continue_after_preemption={p.ctx.cfg[0]}; its dial then {p.ctx.cfg[4]}) request(s) {stranded} to the same origin never complete -- schedule: {w.trace}", not stranded),
                    (f"[C19] another request to the same origin inherits the connection the timed-out request left closed ({'; '.join(inherited)[:200]}) -- schedule: {w.trace}", not inherited),
                    ("pool mutex left locked", not w.shared.locked and not w.keys.locked),
                    ("witness:reach", z3.BoolVal(True))]

        def ex_timed_out(p, m):
            cont, proto, stage, bg_first, outcome, probe = p.ctx.cfg
            if stage.startswith("exchange"):
                return {"family": "pool_timeout_inflight", "how": "timeout", "note": f"victim {proto}, second request {probe}; the replay uses HTTP/1.1 for both"}
            scn = {"family": "pool_stranded_waiter", "cont": int(cont), "how": "cancel+dial_err" if outcome == "err" else "cancel", "r1_when": "after", "r1": probe}
            if stage.startswith("waiting"):
                scn.update({"cancel_who": "r1", "r0": "h2"})
            else:
                scn["r0"] = proto
            return scn

        obs.append({"name": f"{which.lower()}_timed_out_request_leaves_pool_usable", "family": "pool_timeout_cleanup",
                    "funcs": ["client::pool::Pool::checkout", "<Checkout as Future>::poll", "<Checkout as PinnedDrop>::drop", "client::pool::checkout::Checkout::as_delayed", "client::pool::PoolInner::cancel_connection"],
                    "bound": "one request (HTTP/1.1 or HTTP/2) dropped while waiting for its own dial (polled or not), for another request's dial, or while its exchange is in flight on its connection and a second request is dialing; the background continuation runs before or after the dial completes; the dial succeeds or fails; then one fresh request (either protocol) and a drain; both continue_after_preemption settings",
                    "doc": "dropping the inner request future at expiry never leaves the pool unable to serve the origin: the next request completes (with a connection or an error)",
                    "run": run_timed_out, "check": check_timed_out, "crosscheck": False, "loop_bound": 12,
                    "cex_extract": ex_timed_out,
                    "judge": lambda scn, out: out.get("result", "").startswith(("panic", "crash")) or (out.get("b") != "200" if scn.get("family") == "pool_timeout_inflight" else out.get("r1") == "timeout")})
        return obs
    if "C03" in classes:
        def run_preempted_owner(ctx):
            cont = ctx.choose([(True, False), (True, True)], "continue_after_preemption")
            b_polled = ctx.choose([(True, True), (True, False)], "owner polled before the release")
            c_proto = ctx.choose([(True, "h2"), (True, "h1")], "protocol of the following request")
            c_polled = ctx.choose([(True, True), (True, False)], "following request polled before the release")
            outcome = ctx.choose([(True, "err"), (True, "ok")], "outcome of the owner's own attempt (when it continues)")
            ctx.drop_impls = drop_impls
            ctx.now = z3.IntVal(0)
            w = World(ctx, fns, cont)
            ctx.world = w
            ctx.cfg = (cont, b_polled, c_proto, c_polled, outcome)
            # A (HTTP/1.1) holds a connection of its own
            w.apply(("issue", "h1", 10))
            w.apply(("poll", 0))
            w.apply(("dial", 0, "ok"))
            w.apply(("poll", 0))
            # B (HTTP/2) owns the in-flight attempt, C follows it
            w.apply(("issue", "h2", 10))
            if b_polled:
                w.apply(("poll", 1))
            w.apply(("issue", c_proto, 10))
            if c_polled:
                w.apply(("poll", 2))
            # A finishes: its connection pre-empts B's attempt
            w.apply(("release", 0, False))
            w.drain_tasks()
            # whatever is left of B's attempt terminates
            for n, k in enumerate(w.dials_started):
                if k.state == "dialing" and k.outcome is None:
                    w.apply(("dial", n, outcome))
            w.drain_tasks()
            return w

        def check_preempted_owner(p):
            if p.outcome == "panic":
                return [("pool protocol panics / deadlocks: " + str(p.value)[:100], False)]
            w = p.value
            stranded = [r["i"] for r in w.reqs if r["state"] == "active"]
            return [(f"[C03] request(s) {stranded} that followed an HTTP/2 attempt are left waiting for ever after the attempt's owner was served by a released connection and the attempt itself was abandoned / failed (configuration {p.ctx.cfg}; states {[(r['i'], r['state']) for r in w.reqs]})", not stranded),
                    ("pool mutex left locked", not w.shared.locked and not w.keys.locked),
                    ("witness:reach", z3.BoolVal(True))]

        obs.append({"name": f"{which.lower()}_preempted_owner_releases_followers", "family": "pool_preempted_owner",
                    "funcs": ["client::pool::Pool::checkout", "<Checkout as Future>::poll", "<Checkout as PinnedDrop>::drop", "client::pool::PoolInner::{push,cancel_connection}", "<Pooled as Drop>::drop", "<WhenReady as Drop>::drop"],
                    "bound": "request A (HTTP/1.1) holds a connection; B (HTTP/2) owns an in-flight attempt (polled or not); C (either protocol, polled or not) follows it; A releases, B is served by that connection; B's own attempt is dropped or continues and then fails / succeeds; both continue_after_preemption settings",
                    "doc": "a request that follows an attempt is released (connection or error) also when the attempt's owner is pre-empted by a released connection",
                    "run": run_preempted_owner, "check": check_preempted_owner, "crosscheck": False, "loop_bound": 12,
                    "cex_extract": lambda p, m: {"family": "pool_preempted_owner", "cont": int(p.ctx.cfg[0]), "c": p.ctx.cfg[2]},
                    "judge": lambda scn, out: out.get("result", "").startswith(("panic", "crash")) or out.get("rc") == "timeout"})
    if "C15" in classes:
        d15 = 4 if tier == "quick" else 5

        def run_idle_limit(ctx):
            cont = ctx.choose([(True, False), (True, True)], "continue_after_preemption")
            max_idle = ctx.choose([(True, 0), (True, 1), (True, 2)], "max_idle_per_host")
            ctx.drop_impls = drop_impls
            ctx.now = z3.IntVal(0)
            w = World(ctx, fns, cont, max_idle=max_idle)
            ctx.world = w
            ctx.cfg = (cont, max_idle)
            # max_idle + 1 HTTP/1.1 requests in flight together, each on its own connection ...
            k = max_idle + 1
            for i in range(k):
                w.apply(("issue", "h1", 10))
                w.apply(("poll", i))
            for i in range(k):
                w.apply(("dial", i, "ok"))
                w.apply(("poll", i))
            if any(r["state"] != "holding" for r in w.reqs):
                raise Inconclusive("set-up: a request did not obtain its connection")
            # ... max_idle of them are released: the idle list is full, one request still holds its connection
            for i in range(max_idle):
                w.apply(("release", i, False))
                w.drain_tasks()
            w.setup_len = len(w.trace)
            # from there every schedule of d15 actions with up to two more requests
            for step in range(d15):
                acts = [a for a in w.enabled(k + 2, ("h1",), (10,)) if not (a[0] == "dial" and a[2] == "err")]
                if not acts:
                    break
                sv = z3.Int(f"sched_step_{step}")
                a = ctx.choose([(sv == i, x) for i, x in enumerate(acts)], "action")
                w.apply(a)
            w.drain()
            return w

        def check_idle_limit(p):
            if p.outcome == "panic":
                return [("pool protocol panics / deadlocks: " + str(p.value)[:100], False)]
            w = p.value
            props = [(f"[C15] {msg} (continue_after_preemption={p.ctx.cfg[0]}) -- schedule after the set-up: {w.trace[w.setup_len:]}", False) for tag, msg in w.viol if tag == "C15"]
            return props + [("pool mutex left locked", not w.shared.locked and not w.keys.locked), ("witness:reach", z3.BoolVal(True))]

        def ex_idle_limit(p, m):
            w = p.value if p.outcome != "panic" else None
            tr = w.trace[w.setup_len:] if w is not None else []
            held = [a[1] for a in tr if a[0] == "issue"]
            scn = {"family": "pool_idle_limit", "max_idle": p.ctx.cfg[1], "schedule": str(tr)}
            # the replayable shape: a request created (it takes an idle connection) but never polled, dropped after another release
            issued = [n for n, a in enumerate(tr) if a[0] == "issue"]
            cancels = [n for n, a in enumerate(tr) if a[0] == "cancel"]
            polls = [a[1] for a in tr if a[0] == "poll"]
            if issued and cancels and not any(x >= p.ctx.cfg[1] + 1 for x in polls):
                scn["parked"] = 1
            return scn

        def judge_idle_limit(scn, out):
            if out.get("result", "").startswith(("panic", "crash")):
                return True
            if "idle_after" not in out:
                return None
            return int(out["idle_after"]) > int(scn["max_idle"])

        obs.append({"name": f"{which.lower()}_idle_limit_under_schedules", "family": "pool_idle_limit",
                    "funcs": ["client::pool::Pool::checkout", "<Checkout as Future>::poll", "<Checkout as PinnedDrop>::drop", "<Pooled as Drop>::drop", "<WhenReady as Future>::poll", "<WhenReady as Drop>::drop", "client::pool::PoolInner::{push,pop}", "client::pool::checkout::register_connected"],
                    "bound": f"max_idle_per_host in {{0,1,2}}; set-up: max_idle+1 HTTP/1.1 requests each on its own connection, max_idle of them released (idle list full), one still in flight; then every schedule of {d15} actions from {{issue (up to 2 more requests), poll if woken, cancel, dial completes, release open/closed, run background task}}, then a drain; the limit is checked after every action; both continue_after_preemption settings",
                    "doc": "at no point of any schedule does the pool hold more idle connections for the origin than max_idle_per_host, whichever code path puts a connection back",
                    "run": run_idle_limit, "check": check_idle_limit, "crosscheck": False, "max_paths": 400000, "loop_bound": 12,
                    "cex_extract": ex_idle_limit, "judge": judge_idle_limit})
    if classes == ("C15",):
        return obs
    configs = [("cont_off", False), ("cont_on", True)]
    for name, cont in configs:
        obs.append({"name": f"{which.lower()}_pool_schedules_{name}", "family": "pool_schedules",
                    "funcs": ["client::pool::Pool::checkout", "<Checkout as Future>::poll", "<Waiting as Future>::poll", "<Checkout as PinnedDrop>::drop", "client::pool::checkout::Checkout::as_delayed",
                              "client::pool::checkout::register_connected", "<Pooled as Drop>::drop", "<WhenReady as Future>::poll", "<WhenReady as Drop>::drop", "client::pool::PoolInner::{push,pop,cancel_connection}"],
                    "bound": f"{n_req} requests to {len(origins)} origin(s) (HTTP/1.1 or HTTP/2 each), every schedule of {depth} scheduler actions from {{issue, poll (only if woken), cancel, dial completes ok/err, release open/closed, run background task}}, then a drain phase in which all dials succeed and every woken task runs, then a fresh probe request (either protocol) and a second drain; continue_after_preemption={cont}",
                    "doc": "no request is stranded at quiescence (C03); at most one HTTP/2 attempt in flight per origin (C04); a non-multiplexed connection is never in two places (C02); no closed connection is delivered (C05); no cross-origin delivery (C06); no panic/deadlock",
                    "run": mk_run(cont, ("h1", "h2"), origins, n_req, depth), "check": check, "crosscheck": False, "max_paths": 400000, "loop_bound": 12,
                    "cex_extract": scenario_of(cont), "judge": judge_sched})
    return obs
