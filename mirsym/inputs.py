"""Symbolic inputs shared by the obligations: well-formed URIs, requests, mock services."""
import z3

from interp import Agg, Cell, Ctx, Enum, Inconclusive, Opaque, Ref, UNIT, none, some
from models import (AuthorityV, HeaderMapV, HeaderValueV, MODELS, RequestV, UriV, deref, model, DOC)

ALNUM = z3.Union(z3.Range("a", "z"), z3.Range("0", "9"))
ALNUM_UP = z3.Union(z3.Range("a", "z"), z3.Range("A", "Z"), z3.Range("0", "9"))
DOT = z3.Re(z3.StringVal("."))
DASH = z3.Re(z3.StringVal("-"))
COLON = z3.Re(z3.StringVal(":"))


def host_re(maxlen=6, upper=False):
    al = ALNUM_UP if upper else ALNUM
    name = z3.Concat(al, z3.Loop(z3.Union(al, DOT, DASH), 0, maxlen - 1))
    v6 = z3.Concat(z3.Re(z3.StringVal("[")), z3.Loop(z3.Union(z3.Range("0", "9"), z3.Range("a", "f"), COLON), 2, maxlen), z3.Re(z3.StringVal("]")))
    return z3.Union(name, v6)


SCHEMES = ["http", "https", "ws", "wss", "ftp"]


def sym_authority(ctx: Ctx, tag="", maxlen=6, upper=False, userinfo=False):
    """host = inner | "[" inner "]": the bracket structure is explicit (and registered for the
    trim_*_matches models) so that the solver never has to rediscover it from the text"""
    inner = z3.String("hostname" + tag)
    bracketed = z3.Bool("host_is_ipv6_literal" + tag)
    has_port = z3.Bool("has_port" + tag)
    port = z3.BitVec("port" + tag, 16)
    al = ALNUM_UP if upper else ALNUM
    name = z3.Concat(al, z3.Loop(z3.Union(al, DOT, DASH), 0, maxlen - 1))
    v6 = z3.Loop(z3.Union(z3.Range("0", "9"), z3.Range("a", "f"), COLON), 2, maxlen)
    # `:8080` (empty host with a port) is a legal authority for http::Uri
    ctx.assume(z3.If(bracketed, z3.InRe(inner, v6), z3.Or(z3.InRe(inner, name), z3.And(has_port, inner == z3.StringVal("")))))
    with_tail = z3.Concat(inner, z3.StringVal("]"))
    host = z3.If(bracketed, z3.Concat(z3.StringVal("["), with_tail), inner)
    reg = getattr(ctx, "trim_registry", None)
    if reg is None:
        reg = ctx.trim_registry = {}
    t1 = z3.If(bracketed, with_tail, inner)
    reg[(host.get_id(), "start", "[")] = t1
    reg[(t1.get_id(), "end", "]")] = inner
    reg[(host.get_id(), "end", "]")] = z3.If(bracketed, z3.Concat(z3.StringVal("["), inner), inner)
    ctx.keep = getattr(ctx, "keep", []) + [host, t1]
    # abstract "rustls accepts this host as a server name"; the definition is a lazy constraint
    from models import valid_server_name_def
    snv = z3.Bool("host_is_valid_server_name" + tag)
    if not hasattr(ctx, "sn_registry"):
        ctx.sn_registry = {}
        ctx.lazy_defs = []
    ctx.sn_registry[inner.get_id()] = snv
    ctx.sn_registry[host.get_id()] = z3.And(z3.Not(bracketed), snv)
    ctx.lazy_defs.append(snv == valid_server_name_def(inner))
    # abstract ASCII lower-casing of the host (definition lazy, congruence eager)
    from models import lower
    lo = z3.String("hostname_lower" + tag)
    if not hasattr(ctx, "lower_list"):
        ctx.lower_list = []
    for (i2, l2) in ctx.lower_list:
        ctx.assume(z3.Implies(inner == i2, lo == l2))
    ctx.lower_list.append((inner, lo))
    if not hasattr(ctx, "lower_registry"):
        ctx.lower_registry = {}
    ctx.lower_registry[inner.get_id()] = lo
    ctx.lower_registry[host.get_id()] = z3.If(bracketed, z3.Concat(z3.StringVal("["), lo, z3.StringVal("]")), lo)
    ctx.lazy_defs.append(lo == lower(inner, maxlen))
    a = AuthorityV(host, has_port, port, inner=inner, bracketed=bracketed)
    a.lower_inner = lo
    if userinfo:
        ui = z3.String("userinfo" + tag)
        ctx.assume(z3.InRe(ui, z3.Loop(z3.Union(z3.Range("a", "z"), z3.Range("0", "9")), 0, 3)))
        a.userinfo = ui
    return a
    return AuthorityV(host, has_port, port, inner=inner, bracketed=bracketed)


def sym_uri(ctx: Ctx, tag="", maxlen=6, path_len=4, shape_pq=True, userinfo=False):
    """every URI shape http::Uri can hold (uri/mod.rs invariants): absolute (scheme+authority+path),
    authority-form (authority only), origin-form / asterisk (path only).
    Assumptions (stated in evidence): no userinfo, lower-case scheme from a small set, host of <= maxlen
    characters over [a-z0-9.-] or a bracketed IPv6 literal, port a valid u16 without leading zeros,
    path_and_query data of <= path_len visible characters."""
    has_scheme = z3.Bool("has_scheme" + tag)
    scheme = z3.String("scheme" + tag)
    has_auth = z3.Bool("has_auth" + tag)
    pq = z3.String("pq" + tag)
    auth = sym_authority(ctx, tag, maxlen, userinfo=userinfo)
    ctx.assume(z3.Implies(has_scheme, has_auth))
    ctx.assume(z3.Implies(has_scheme, z3.Or(*[scheme == z3.StringVal(s) for s in SCHEMES])))
    ctx.assume(z3.Implies(z3.Not(has_scheme), scheme == z3.StringVal("")))
    # authority-form has no path; origin-form has a non-empty path
    ctx.assume(z3.Implies(z3.And(has_auth, z3.Not(has_scheme)), pq == z3.StringVal("")))
    ctx.assume(z3.Implies(z3.Not(has_auth), z3.Length(pq) >= 1))
    ctx.assume(z3.Length(pq) <= path_len)
    if shape_pq:
      tail = z3.Star(z3.Union(z3.Range("a", "z"), z3.Re(z3.StringVal("/")), z3.Re(z3.StringVal("?")), z3.Re(z3.StringVal("="))))
      ctx.assume(z3.InRe(pq, z3.Union(z3.Re(z3.StringVal("")), z3.Re(z3.StringVal("*")),
                                    z3.Concat(z3.Re(z3.StringVal("/")), tail),
                                    # an absolute URI may have an empty path and a query: `http://host?x=1` keeps "?x=1"
                                    z3.Concat(z3.Re(z3.StringVal("?")), tail))))
      ctx.assume(z3.Implies(z3.PrefixOf(z3.StringVal("?"), pq), has_scheme))
    return UriV(has_scheme, scheme, has_auth, auth, pq)


def is_secure(u: UriV):
    return z3.And(u.has_scheme, z3.Or(u.scheme == z3.StringVal("https"), u.scheme == z3.StringVal("wss")))


def expected_host_value(u: UriV):
    default = z3.If(is_secure(u), u.auth.port == 443, u.auth.port == 80)
    return z3.If(z3.And(u.auth.has_port, z3.Not(default)), z3.Concat(u.auth.host, z3.StringVal(":"), z3.IntToStr(z3.BV2Int(u.auth.port))), u.auth.host)


class ConnV:
    """mock `Connection<B>`: only its HTTP version matters to the layers under test"""

    def __init__(self, version):
        self.version = version


@model("<C as Connection>::version", "Connection::version", doc="mock connection: reports a symbolic http::Version")
def _conn_version(ctx, a, c):
    return deref(ctx, a[0]).version


class SvcV:
    """mock inner tower::Service: records what it is called with"""

    def __init__(self):
        self.calls = []


@model("<S as Service>::call", "Service::call", doc="mock inner service: records the request it receives, returns an opaque future")
def _svc_call(ctx, a, c):
    s = deref(ctx, a[0])
    if not isinstance(s, SvcV):
        raise Inconclusive("Service::call on " + repr(s))
    s.calls.append(a[1])
    ctx.events.append(("inner_call", a[1]))
    return Opaque("inner future")


@model("<S as Service>::poll_ready", "Service::poll_ready", doc="mock inner service: always ready")
def _svc_ready(ctx, a, c):
    return Enum("Poll", "Ready", 0, [Enum("Result", "Ok", 0, [UNIT])])


# ---- counterexample -> native replay scenario ------------------------------------------------------
def ev(m, e):
    v = m.eval(e, model_completion=True)
    if z3.is_string_value(v):
        return v.as_string()
    if z3.is_bv_value(v):
        return v.as_long()
    if z3.is_true(v):
        return True
    if z3.is_false(v):
        return False
    return str(v)


def authority_text(m, a: AuthorityV):
    t = ev(m, a.host)
    if a.userinfo is not None and ev(m, a.userinfo):
        t = ev(m, a.userinfo) + "@" + t
    if ev(m, a.has_port):
        t += ":" + str(ev(m, a.port))
    return t


def uri_scenario(m, u: UriV):
    scn = {}
    hs, ha = ev(m, u.has_scheme), ev(m, u.has_auth)
    if hs:
        scn["scheme"] = ev(m, u.scheme)
    if ha:
        scn["authority"] = authority_text(m, u.auth)
    if hs or not ha:
        scn["pq"] = ev(m, u.pq)
    return scn


def parse_authority(a):
    """concrete reference split of `host[:port]` (bracket aware) -> (host, port or None)"""
    if a.startswith("["):
        i = a.index("]")
        host, rest = a[: i + 1], a[i + 1:]
        return host, (int(rest[1:]) if rest.startswith(":") and rest[1:].isdigit() else None)
    if ":" in a:
        h, p = a.rsplit(":", 1)
        return h, (int(p) if p.isdigit() else None)
    return a, None
