"""C07 / C09 (serving loop): `Serving::poll`, `GracefulShutdown::poll`, `ConnectionDriver::poll`,
`GracefulConnectionDriver::poll`, `close()` / `CloseSender::send` / `CloseReciever::into_future`
(its `async` block from the lowered coroutine MIR) / `CloseFuture::poll`, executed from MIR and
driven by a scheduler: clients connect, the make-service future resolves, requests arrive and
finish on connections, connections fail, the shutdown signal fires; tasks run only when woken.

Environment models: the acceptor, the make-service, the protocol's connection future (a scripted
exchange: idle / request in flight / finished / failed, `graceful_shutdown()` recorded), the
executor (records spawned drivers), tokio's watch channel (`closed()` resolves when every receiver
is gone), `Fuse`, `Instrumented`.
"""
import z3

import async_models  # noqa: F401
from async_models import PENDING, READY, mk_cx, poll_value, task_of, wake
from interp import Agg, Cell, CoroV, Enum, Inconclusive, Opaque, Panic, Ref, UNIT, is_z3, none, some
from models import MODELS, deref, err, model, ok


# ---------------------------------------------------------------------------------------------------
# tokio::sync::watch (only what close() uses)
# ---------------------------------------------------------------------------------------------------
class WatchChan:
    def __init__(self):
        self.receivers = 0
        self.closed_waiters = []


class WatchTx:
    def __init__(self, ch):
        self.ch = ch

    def clone_model(self, ctx):
        return self  # only ever cloned behind an Arc


class WatchRx:
    def __init__(self, ch):
        self.ch = ch
        self.ch.receivers += 1
        self.dropped = False

    def clone_model(self, ctx):
        return WatchRx(self.ch)

    def mir_drop(self, ctx):
        if self.dropped:
            return
        self.dropped = True
        self.ch.receivers -= 1
        if self.ch.receivers == 0:
            ws, self.ch.closed_waiters = self.ch.closed_waiters, []
            for t in ws:
                wake(ctx, t)


@model("watch::channel", doc="tokio::sync::watch::channel: one sender, one receiver")
def _watch_channel(ctx, a, c):
    ch = WatchChan()
    return Agg("tuple", [WatchTx(ch), WatchRx(ch)])


class ClosedFut:
    def __init__(self, ch):
        self.ch = ch

    def poll_model(self, ctx, cx):
        if self.ch.receivers == 0:
            return READY(UNIT)
        t = task_of(ctx, cx)
        if t not in self.ch.closed_waiters:
            self.ch.closed_waiters.append(t)
        return PENDING()

    def mir_drop(self, ctx):
        pass


@model("Sender::closed", doc="tokio watch: future that resolves once every receiver has been dropped")
def _watch_closed(ctx, a, c):
    tx = deref(ctx, a[0])
    if hasattr(tx, "cell") and not isinstance(tx, WatchTx):
        tx = tx.cell.v  # Arc<Sender>
    if not isinstance(tx, WatchTx):
        raise Inconclusive("closed() on " + repr(tx))
    return ClosedFut(tx.ch)


def poll_any(ctx, ref, cx):
    """like async_models.poll_value, plus hyperdriver's own hand-written futures (struct values):
    their `Future::poll` impl is found by self type and run from MIR"""
    v = ref
    last = ref
    hops = 0
    while isinstance(v, Ref) and hops < 6:
        last = v
        v = ctx.load(v)
        hops += 1
    if isinstance(v, Agg) and v.kind.startswith("struct:"):
        return ctx.call(f"<{v.kind[7:]} as futures_core::Future>::poll", [last, cx])
    return _poll_value(ctx, ref, cx)


_poll_value = poll_value
poll_value = poll_any


# ---------------------------------------------------------------------------------------------------
# futures_util Fuse, tracing Instrumented
# ---------------------------------------------------------------------------------------------------
class FuseV:
    def __init__(self, inner):
        self.inner = Cell(inner, "fuse.inner")
        self.done = False

    def poll_model(self, ctx, cx):
        if self.done:
            return PENDING()
        r = poll_value(ctx, Ref(self.inner), cx)
        if r.variant == "Ready":
            self.done = True
            v, self.inner.v = self.inner.v, None
            if v is not None and not is_z3(v):
                ctx.drop_value(v)
        return r

    def mir_drop(self, ctx):
        v, self.inner.v = self.inner.v, None
        if v is not None and not is_z3(v):
            ctx.drop_value(v)


@model("FutureExt::fuse", doc="futures-util: Fuse<F>: polls F until it completes, Pending ever after")
def _fuse(ctx, a, c):
    return FuseV(a[0])


@model("<Fuse as Future>::poll", "<Future as Future>::poll", "<C as Future>::poll", doc="polling a future value (dispatch as in async_models)")
def _fuse_poll(ctx, a, c):
    return poll_value(ctx, a[0], a[1])


class InstrumentedV:
    def __init__(self, inner):
        self.inner = Cell(inner, "instrumented.inner")

    def poll_model(self, ctx, cx):
        return poll_value(ctx, Ref(self.inner), cx)

    def mir_drop(self, ctx):
        v, self.inner.v = self.inner.v, None
        if v is not None and not is_z3(v):
            ctx.drop_value(v)


@model("Instrument::instrument", doc="tracing: wraps the future; polling enters the (disabled) span and polls the inner future")
def _instrument(ctx, a, c):
    return InstrumentedV(a[0])


@model("Instrumented::span", doc="tracing")
def _instrumented_span(ctx, a, c):
    return Ref(Cell(Opaque("Span"), "span"))


@model("Instrumented::inner_pin_mut", "Instrumented::inner_mut", doc="tracing: pinned access to the wrapped value")
def _instrumented_inner(ctx, a, c):
    w = deref(ctx, a[0])
    if not isinstance(w, InstrumentedV):
        raise Inconclusive("inner_pin_mut on " + repr(w))
    return Ref(w.inner)


@model("Interest::never", doc="tracing: the interest of a callsite nobody listens to")
def _interest_never(ctx, a, c):
    return Opaque("Interest::never")


@model("<DefaultCallsite as Callsite>::metadata", "Callsite::metadata", doc="tracing: static metadata (opaque)")
def _callsite_metadata(ctx, a, c):
    return Opaque("Metadata")


@model("__macro_support::__disabled_span", "Span::new_disabled", "Span::child_of", doc="tracing: disabled span (no subscriber)")
def _disabled_span(ctx, a, c):
    return Opaque("Span::none")


# ---------------------------------------------------------------------------------------------------
# mock server parts
# ---------------------------------------------------------------------------------------------------
class AcceptorV:
    def __init__(self, world):
        self.world = world
        self.queue = []
        self.fail = False
        self.waiter = None
        self.polls_after_signal = 0


@model("<A as Accept>::poll_accept", "Accept::poll_accept", doc="mock acceptor: next queued client stream, an injected listener error, else Pending (registers the polling task)")
def _poll_accept(ctx, a, c):
    acc = deref(ctx, a[0])
    if not isinstance(acc, AcceptorV):
        raise Inconclusive("poll_accept on " + repr(acc))
    w = acc.world
    if w.signal.fired:
        acc.polls_after_signal += 1
    if acc.fail:
        acc.fail = False
        acc.waiter = None
        return READY(err(Opaque("listener error")))
    if acc.queue:
        acc.waiter = None  # a waker is only registered by a poll that returns Pending
        sid = acc.queue.pop(0)
        if w.signal.fired:
            w.viol.append(f"connection {sid} accepted although the shutdown signal had already resolved")
        w.accepted.append(sid)
        if w.signal_at_accept and not w.signal.fired:
            # the shutdown signal resolves while the server future is being polled (e.g. from another thread,
            # or as a side effect of this very connection): right after this stream was handed out
            w.signal_at_accept = False
            w.fire_signal(midpoll=True)
        return READY(ok(StreamV(sid)))
    acc.waiter = task_of(ctx, a[1])
    return PENDING()


class StreamV:
    def __init__(self, sid):
        self.sid = sid
        self.dropped = False

    def mir_drop(self, ctx):
        self.dropped = True


@model("<IO as HasConnectionInfo>::info", "HasConnectionInfo::info", doc="mock stream: opaque connection info")
def _stream_info(ctx, a, c):
    return Agg("struct:ConnectionInfo", [Opaque("local"), Opaque("remote")])


@model("ConnectionInfo::remote_addr", doc="hyperdriver info: accessor")
def _remote_addr(ctx, a, c):
    return Ref(Cell(Opaque("remote"), "remote"))


class MakeSvcV:
    def __init__(self, world):
        self.world = world
        self.ready_err = False


class MakeFutV:
    def __init__(self, world, sid):
        self.world, self.sid = world, sid
        self.outcome = None
        self.waiter = None

    def poll_model(self, ctx, cx):
        if self.outcome is None and self.world.instant_make:
            self.outcome = "ok"  # a shared / ready-made service: the make-service future resolves at its first poll
        if self.outcome is None:
            self.waiter = task_of(ctx, cx)
            return PENDING()
        self.waiter = None
        if self.outcome == "ok":
            return READY(ok(Opaque(f"service{self.sid}")))
        return READY(err(Opaque("make-service error")))

    def mir_drop(self, ctx):
        pass


@model("<S as MakeServiceRef>::poll_ready_ref", "MakeServiceRef::poll_ready_ref", doc="mock make-service: ready (or an injected error)")
def _poll_ready_ref(ctx, a, c):
    m = deref(ctx, a[0])
    if m.ready_err:
        return READY(err(Opaque("make-service not ready")))
    return READY(ok(UNIT))


@model("<S as MakeServiceRef>::make_service_ref", "MakeServiceRef::make_service_ref", doc="mock make-service: a future the scheduler resolves")
def _make_service_ref(ctx, a, c):
    m = deref(ctx, a[0])
    st = deref(ctx, a[1])
    f = MakeFutV(m.world, st.sid)
    m.world.making.append(f)
    return f


class ConnV:
    """the protocol's connection future: one keep-alive connection and its exchanges"""

    def __init__(self, world, sid):
        self.world, self.sid = world, sid
        self.in_flight = False      # a request has been read and its response is not complete yet
        self.served = 0
        self.finished = None        # None | "ok" | "err"
        self.fail = False
        self.client_gone = False
        self.graceful_calls = 0
        self.polled_after_graceful = False
        self.aborted_exchange = False
        self.waiter = None
        self.dropped = False

    def poll_model(self, ctx, cx):
        if self.finished is not None:
            raise Panic(f"connection {self.sid} polled after completion")
        if self.graceful_calls:
            self.polled_after_graceful = True
        if self.fail:
            self.finished = "err"
            if self.in_flight:
                self.aborted_exchange = True
            return READY(err(Opaque("connection error")))
        if not self.in_flight and (self.client_gone or self.graceful_calls):
            # idle keep-alive connection: closes on peer close or once told to shut down
            self.finished = "ok"
            return READY(ok(UNIT))
        self.waiter = task_of(ctx, cx)
        return PENDING()

    def mir_drop(self, ctx):
        self.dropped = True
        if self.finished is None and self.in_flight:
            self.aborted_exchange = True


@model("<P as Protocol>::serve_connection_with_upgrades", "Protocol::serve_connection_with_upgrades", doc="mock protocol: a connection future for the accepted stream")
def _serve_connection(ctx, a, c):
    st = a[1]
    w = ctx.world
    conn = ConnV(w, st.sid)
    w.conns[st.sid] = conn
    return conn


@model("<C as Connection>::graceful_shutdown", "Connection::graceful_shutdown", doc="mock connection: records the call (hyper: finish in-flight exchanges, then close)")
def _graceful(ctx, a, c):
    conn = deref(ctx, a[0])
    if not isinstance(conn, ConnV):
        raise Inconclusive("graceful_shutdown on " + repr(conn))
    conn.graceful_calls += 1
    return UNIT


class ExecutorV:
    def __init__(self, world):
        self.world = world


@model("<E as Executor>::execute", "Executor::execute", doc="mock executor: records the spawned connection driver as a task of the world")
def _execute(ctx, a, c):
    ex = deref(ctx, a[0])
    w = ex.world
    if w.signal.fired and w.signal.observed:
        w.viol.append("a connection driver was spawned after the server had observed the shutdown signal")
    j = len(w.drivers)
    w.drivers.append({"cell": Cell(a[1], f"driver{j}"), "done": False})
    ctx.woken.add(("drv", j))
    return UNIT


class SignalV:
    def __init__(self):
        self.fired = False
        self.observed = False
        self.waiter = None

    def poll_model(self, ctx, cx):
        if self.fired:
            self.observed = True
            return READY(UNIT)
        self.waiter = task_of(ctx, cx)
        return PENDING()

    def mir_drop(self, ctx):
        pass


# ---------------------------------------------------------------------------------------------------
# the world
# ---------------------------------------------------------------------------------------------------
class World:
    def __init__(self, ctx, fns, graceful):
        self.ctx, self.fns, self.graceful = ctx, fns, graceful
        self.acceptor = AcceptorV(self)
        self.makesvc = MakeSvcV(self)
        self.executor = ExecutorV(self)
        self.signal = SignalV()
        self.accepted, self.making, self.conns, self.drivers = [], [], {}, []
        self.viol, self.trace = [], []
        self.next_sid = 0
        self.fault = None
        self.signal_at_accept = False
        self.instant_make = False
        self.midpoll = False
        self.server_result = None
        server = ctx.exec_fn(fns["server_new"], [self.acceptor, Opaque("protocol"), self.makesvc, self.executor])
        if graceful:
            fut = ctx.exec_fn(fns["with_graceful"], [server, self.signal])
            self.poll_fn = fns["graceful_poll"]
        else:
            fut = ctx.exec_fn(fns["into_future"], [server])
            self.poll_fn = fns["serving_poll"]
        self.root = Cell(fut, "server")
        ctx.woken.add("server")

    def fire_signal(self, midpoll=False):
        self.signal.fired = True
        self.midpoll = self.midpoll or midpoll
        for cn in self.conns.values():
            cn.in_flight_at_signal = cn.in_flight
            cn.served_at_signal = cn.served
        wake(self.ctx, self.signal.waiter)

    # ---- actions -----------------------------------------------------------------------------
    def enabled(self, max_conns):
        acts = []
        if self.server_result is None and "server" in self.ctx.woken:
            acts.append(("poll-server",))
        for j, d in enumerate(self.drivers):
            if not d["done"] and ("drv", j) in self.ctx.woken:
                acts.append(("poll-driver", j))
        if self.next_sid < max_conns:
            acts.append(("connect",))
        for f in self.making:
            if f.outcome is None:
                acts.append(("make-ok", f.sid))
        for sid, cn in self.conns.items():
            if cn.finished is None and not cn.dropped:
                if not cn.in_flight and not cn.client_gone and not cn.graceful_calls:
                    acts.append(("request", sid))
                if cn.in_flight:
                    acts.append(("respond", sid))
                if not cn.fail:
                    acts.append(("conn-error", sid))
                if not cn.in_flight and not cn.client_gone:
                    acts.append(("client-close", sid))
        if self.graceful and not self.signal.fired:
            acts.append(("signal",))
        if not self.graceful and self.server_result is None and not self.fault:
            # faults of the listener itself / of the make-service: the only things allowed to end the server
            acts.append(("accept-error",))
            for f in self.making:
                if f.outcome is None:
                    acts.append(("make-err", f.sid))
        return acts

    def apply(self, a):
        ctx = self.ctx
        self.trace.append(a)
        k = a[0]
        if k == "poll-server":
            ctx.woken.discard("server")
            r = ctx.exec_fn(self.poll_fn, [Ref(self.root), mk_cx("server")])
            if r.variant == "Ready":
                self.server_result = r.f[0]
                v, self.root.v = self.root.v, None
                ctx.drop_value(v)
        elif k == "poll-driver":
            j = a[1]
            d = self.drivers[j]
            ctx.woken.discard(("drv", j))
            kind = d["cell"].v.kind if isinstance(d["cell"].v, Agg) else ""
            fn = self.fns["gdriver_poll"] if kind == "struct:GracefulConnectionDriver" else self.fns["driver_poll"]
            r = ctx.exec_fn(fn, [Ref(d["cell"]), mk_cx(("drv", j))])
            if r.variant == "Ready":
                d["done"] = True
                v, d["cell"].v = d["cell"].v, None
                ctx.drop_value(v)
        elif k == "connect":
            self.acceptor.queue.append(self.next_sid)
            self.next_sid += 1
            wake(ctx, self.acceptor.waiter)
        elif k == "make-ok":
            f = [x for x in self.making if x.sid == a[1]][0]
            f.outcome = "ok"
            wake(ctx, f.waiter)
        elif k == "request":
            cn = self.conns[a[1]]
            cn.in_flight = True
        elif k == "respond":
            cn = self.conns[a[1]]
            cn.in_flight = False
            cn.served += 1
            wake(ctx, cn.waiter)
        elif k == "conn-error":
            cn = self.conns[a[1]]
            cn.fail = True
            wake(ctx, cn.waiter)
        elif k == "client-close":
            cn = self.conns[a[1]]
            cn.client_gone = True
            wake(ctx, cn.waiter)
        elif k == "accept-error":
            self.fault = "listener"
            self.acceptor.fail = True
            wake(ctx, self.acceptor.waiter)
        elif k == "make-err":
            self.fault = "make-service"
            f = [x for x in self.making if x.sid == a[1]][0]
            f.outcome = "err"
            wake(ctx, f.waiter)
        elif k == "signal":
            self.fire_signal()
        elif k == "signal-at-next-accept":
            self.signal_at_accept = True
        else:
            raise Inconclusive("action " + repr(a))

    def drain(self):
        """everything that can still happen happens: woken tasks run, pending make-service futures
        resolve, in-flight exchanges complete"""
        ctx = self.ctx
        for _ in range(60):
            progressed = False
            if self.server_result is None and "server" in ctx.woken:
                self.apply(("poll-server",))
                progressed = True
            for j, d in enumerate(self.drivers):
                if not d["done"] and ("drv", j) in ctx.woken:
                    self.apply(("poll-driver", j))
                    progressed = True
            if progressed:
                continue
            for f in self.making:
                if f.outcome is None and f.waiter is not None:
                    self.apply(("make-ok", f.sid))
                    progressed = True
            for sid, cn in self.conns.items():
                if cn.finished is None and not cn.dropped and cn.in_flight:
                    self.apply(("respond", sid))
                    progressed = True
            if not progressed:
                return
        raise Inconclusive("drain did not reach quiescence")


def obligations(prog, src, tier, seed, which="C07"):
    SM = r"server::<impl at src/server/mod\.rs:\d+:\d+: \d+:\d+>::"
    fns = {
        "server_new": prog.find_one(SM + r"new$", r"^A$"),
        "with_graceful": prog.find_one(SM + r"with_graceful_shutdown$"),
        "into_future": prog.find_one(SM + r"into_future$", r"server::Server<"),
        "serving_poll": prog.find_one(SM + r"poll$", r"Pin<&mut Serving<"),
        "graceful_poll": prog.find_one(SM + r"poll$", r"Pin<&mut GracefulShutdown<"),
        "driver_poll": prog.find_one(r"drivers::<impl at src/server/conn/drivers\.rs:\d+:\d+: \d+:\d+>::poll$", r"Pin<&mut ConnectionDriver<"),
        "gdriver_poll": prog.find_one(r"drivers::<impl at src/server/conn/drivers\.rs:\d+:\d+: \d+:\d+>::poll$", r"Pin<&mut GracefulConnectionDriver<"),
    }
    funcs = ["server::Server::{new,with_graceful_shutdown,into_future}", "server::Serving::{poll,poll_once}", "server::GracefulShutdown::{new,poll}", "server::{close,CloseSender::send,CloseReciever::into_future (async block),CloseFuture::poll}",
             "server::conn::drivers::{ConnectionDriver::poll,GracefulConnectionDriver::{new,poll}}"]
    depths = {0: 5, 1: 4, 2: 3} if tier == "quick" else {0: 6, 1: 5, 2: 4}
    max_conns = 2
    total_conns = 3

    def mk_run(graceful, pre=None):
        depth = depths[len(pre or ())]

        def run(ctx):
            ctx.coroutines = True
            ctx.now = z3.IntVal(0)
            ctx.timers, ctx.woken = [], set()
            w = World(ctx, fns, graceful)
            ctx.world = w
            # pre-state: 0..2 connections already established (accepted, service made, driver spawned),
            # each driver polled or not yet, each connection idle or with a request in flight
            w.apply(("poll-server",))
            for sid, (polled, inflight) in enumerate(pre or ()):
                w.apply(("connect",))
                w.apply(("poll-server",))
                w.apply(("make-ok", sid))
                w.apply(("poll-server",))
                if polled:
                    w.apply(("poll-driver", sid))
                if inflight:
                    w.apply(("request", sid))
            w.prefix = list(w.trace)
            for step in range(depth):
                acts = w.enabled(total_conns)
                if not acts:
                    break
                sv = z3.Int(f"sched_step_{step}")
                a = ctx.choose([(sv == i, x) for i, x in enumerate(acts)], "action")
                w.apply(a)
            w.free = list(w.trace)
            if graceful and not w.signal.fired:
                w.apply(("signal",))
            w.drain()
            return w
        return run

    def check_graceful(p):
        if p.outcome == "panic":
            return [("server / connection driver panics: " + str(p.value)[:120], False)]
        w = p.value
        t = f" -- schedule: {w.trace}"
        props = [(f"[C07] {v}{t}", False) for v in w.viol]
        res = w.server_result
        injected = any(a[0] in ("listener-error",) for a in w.trace)
        props.append((f"[C07] after the shutdown signal the server future has not completed{t}", res is not None))
        if res is not None:
            props.append((f"[C07] the server future completed with an error although nothing but the shutdown signal happened to the listener{t}", res.variant == "Ok" or injected))
        props.append((f"[C07] the listener was polled for new connections after the shutdown signal had resolved{t}", w.acceptor.polls_after_signal == 0))
        for j, d in enumerate(w.drivers):
            props.append((f"[C07] connection driver {j} is still pending at quiescence after the shutdown signal{t}", d["done"]))
        for sid, cn in w.conns.items():
            if cn.finished is None and not cn.dropped:
                props.append((f"[C07] connection {sid} is neither finished nor dropped at quiescence{t}", False))
            told_needed = cn.finished != "err" and not (cn.finished == "ok" and cn.graceful_calls == 0 and cn.client_gone)
            props.append((f"[C07] connection {sid} was told to shut down {cn.graceful_calls} times{t}", cn.graceful_calls <= 1))
            if cn.graceful_calls == 1:
                props.append((f"[C07] connection {sid} was not polled again after being told to shut down{t}", cn.polled_after_graceful))
            props.append((f"[C07] connection {sid} was dropped while a request was in flight (the response is lost){t}", not cn.aborted_exchange or cn.fail))
            if cn.finished == "ok" and not cn.client_gone:
                props.append((f"[C07] open connection {sid} closed without having been told to shut down{t}", cn.graceful_calls == 1))
        props.append(("witness:reach", z3.BoolVal(True)))
        return props

    def check_serving(p):
        if p.outcome == "panic":
            return [("server / connection driver panics: " + str(p.value)[:120], False)]
        w = p.value
        t = f" -- schedule: {w.trace}"
        props = [(f"[C09] {v}{t}", False) for v in w.viol]
        res = w.server_result
        if w.fault is None:
            props.append((f"[C09] the serving future ended although the listener and the make-service are healthy (only connections failed or closed){t}", res is None))
            props.append((f"[C09] the server no longer waits for new connections{t}",
                          res is not None or w.acceptor.waiter == "server" or "server" in p.ctx.woken or any(f.outcome is None and f.waiter == "server" for f in w.making)))
            props.append((f"[C09] client connection(s) {w.acceptor.queue} are still queued at the listener at quiescence although the server is running{t}", res is not None or not w.acceptor.queue))
        elif res is not None:
            props.append((f"[C09] the serving future ended successfully after a {w.fault} fault{t}", res.variant == "Err"))
        # every connection that was set up is driven, and a driver ends exactly when its connection does
        props.append((f"[C09] {len(w.conns)} connections were set up but {len(w.drivers)} drivers were spawned{t}", len(w.conns) == len(w.drivers)))
        for j, d in enumerate(w.drivers):
            cn = w.conns.get(j)
            if cn is None:
                continue
            if cn.finished is not None:
                props.append((f"[C09] connection {j} has finished ({cn.finished}) but its driver is still pending{t}", d["done"]))
            else:
                props.append((f"[C09] driver {j} ended although its connection is still open{t}", not d["done"]))
        props.append(("witness:reach", z3.BoolVal(True)))
        return props

    def scenario_c09(p, m):
        w = p.value if p.outcome != "panic" else None
        tr = w.trace if w is not None else []
        fault = "none"
        if any(a[0] == "conn-error" for a in tr):
            fault = "garbage"
        elif any(a[0] == "client-close" for a in tr):
            fault = "early_close"
        elif w is not None and w.conns:
            fault = "idle"
        return {"family": "serving_probe", "fault": fault, "schedule": str(tr)}

    def judge_c09(scn, out):
        if out.get("result", "").startswith(("panic", "crash")):
            return True
        if "served" not in out:
            return None
        return out.get("server_alive") == "0" or int(out.get("served", "2")) < 2

    def scenario_c07(p, m):
        w = p.value if p.outcome != "panic" else None
        stage = "none"
        if w is not None and w.conns:
            # where was the (first) connection when the signal fired?
            cn = w.conns[min(w.conns)]
            stage = "in_flight" if getattr(cn, "in_flight_at_signal", False) else ("idle" if getattr(cn, "served_at_signal", 0) else "sniffing")
        scn = {"family": "graceful", "stage": stage, "schedule": str(w.trace if w is not None else "")}
        if w is not None and (w.acceptor.polls_after_signal or any("accepted although" in v or "spawned after" in v for v in w.viol)):
            scn["late"] = "midpoll" if w.midpoll else "queued"
        return scn

    def judge_c07(scn, out):
        if out.get("result", "").startswith(("panic", "crash")) or out.get("server_done") == "panicked":
            return True
        if "server_done" not in out:
            return None
        claim = scn.get("claim", "")
        if "accepted although" in claim or "polled for new connections" in claim or "spawned after" in claim:
            return out.get("late_served") == "1" or out.get("late_accepted") == "1"
        if "in flight" in claim:
            return out.get("response_complete") == "0"
        if "server future" in claim:
            return out.get("server_done") != "ok"
        if "closed" in out:
            return out.get("closed") == "0"
        return None

    def run_midpoll(ctx):
        """the signal resolves while the server future is being polled: two clients are queued, the service
        for a connection is ready at once, and handing out the first (or second) stream resolves the signal"""
        ctx.coroutines = True
        ctx.now = z3.IntVal(0)
        ctx.timers, ctx.woken = [], set()
        w = World(ctx, fns, True)
        ctx.world = w
        w.instant_make = ctx.choose([(True, True), (True, False)], "make-service future ready at once")
        queued = ctx.choose([(True, 2), (True, 3)], "clients queued at the listener")
        polled_before = ctx.choose([(True, False), (True, True)], "server already polled once while idle")
        if polled_before:
            w.apply(("poll-server",))
        for _ in range(queued):
            w.apply(("connect",))
        w.apply(("signal-at-next-accept",))
        ctx.woken.add("server")
        w.apply(("poll-server",))
        w.free = list(w.trace)
        w.drain()
        return w

    obs = []
    if which == "C07":
        obs.append({"name": "c07_signal_resolves_during_poll", "family": "graceful_schedules", "funcs": funcs,
                    "bound": "2 or 3 clients queued at the listener; the make-service future ready at once or not; the shutdown signal resolves in the middle of a poll of the server future, right after a stream was handed out; then a drain",
                    "doc": "the signal is looked at before every accept step: connections still queued when it resolves are not accepted, even within the same poll",
                    "run": run_midpoll, "check": check_graceful, "crosscheck": False, "loop_bound": 40,
                    "cex_extract": scenario_c07, "judge": judge_c07})
    import itertools
    conn_states = list(itertools.product((False, True), (False, True)))  # (driver polled, request in flight)
    pres = [()] + [(a,) for a in conn_states] + [(a, b) for a, b in itertools.combinations_with_replacement(conn_states, 2)]

    def tag(pre):
        return "pre" + "".join(("p" if p_ else "n") + ("r" if r_ else "i") for p_, r_ in pre) if pre else "pre0"
    if which == "C07":
      for pre in pres:
        obs.append({"name": "c07_graceful_shutdown_" + tag(pre), "family": "graceful_schedules", "funcs": funcs,
                    "bound": f"pre-state {tag(pre)}: {len(pre)} established connection(s) (p/n = driver polled or not, r/i = request in flight or idle); up to {total_conns} connections in all; every schedule of {depths[len(pre)]} actions from {{connect, make-service resolves, request arrives, response completes, connection error, client closes, shutdown signal, poll server / driver (only if woken)}}, then the signal (if it has not fired) and a drain in which pending make-service futures resolve and in-flight exchanges complete",
                    "doc": "after the signal: no accept, no new driver, the server future completes Ok; every open connection is told to shut down exactly once and polled again; no in-flight exchange is dropped; every driver finishes",
                    "run": mk_run(True, pre), "check": check_graceful, "crosscheck": False, "max_paths": 2000000, "loop_bound": 40,
                    "cex_extract": scenario_c07, "judge": judge_c07})
    else:
      for pre in pres:
        obs.append({"name": "c09_serving_loop_" + tag(pre), "family": "serving_schedules", "funcs": funcs,
                    "bound": f"pre-state {tag(pre)}: {len(pre)} established connection(s); up to {total_conns} in all; every schedule of {depths[len(pre)]} actions (no listener / make-service fault injected), then a drain",
                    "doc": "connection errors and client disconnects never end the serving future; every set-up connection has a driver; the listener stays watched",
                    "run": mk_run(False, pre), "check": check_serving, "crosscheck": False, "max_paths": 2000000, "loop_bound": 40,
                    "cex_extract": scenario_c09, "judge": judge_c09})
    return obs
