"""C17 obligations: no request value makes the client's own conversions panic."""
import z3

import ob_C13
from inputs import ConnV, ev, sym_uri, uri_scenario
from interp import Agg, Cell, Enum, Ref
from models import METHODS, HeaderMapV, RequestV, VERSIONS


def judge_key(scn, out):
    if out.get("result", "").startswith(("panic", "crash")):
        return True
    if "input_error" in out:
        return None
    if "scheme" not in scn:
        return out.get("key") is not None
    return out.get("key") != scn["scheme"] + "://" + scn.get("authority", "")


def obligations(prog, src, tier, seed):
    obs = []
    # ---- version -> protocol ------------------------------------------------------------------------
    f_from = prog.find_one(r"protocol::<impl at src/client/conn/protocol/mod\.rs:\d+:\d+: \d+:\d+>::from$", r"http::Version")

    def run_from(ctx):
        v = z3.BitVec("version", 8)
        ctx.assume(z3.ULE(v, 4))
        ctx.v = v
        return ctx.exec_fn(f_from, [v])

    def check_from(p):
        if p.outcome == "panic":
            return [("HttpProtocol::from(version) panics for a http::Version constant", False)]
        v = p.ctx.v
        r = p.value
        return [("HTTP/2 iff the request asked for HTTP/2", (r.variant == "Http2") == True if False else z3.BoolVal(r.variant == "Http2") == (v == VERSIONS["HTTP_2"])),
                ("witness:reach", z3.BoolVal(True))]

    obs.append({"name": "c17_protocol_from_version", "family": "protocol_from_version", "funcs": ["<HttpProtocol as From<http::Version>>::from"],
                "bound": "all five http::Version constants (HTTP/0.9, 1.0, 1.1, 2, 3)", "doc": "total: every version constant maps to a protocol without panicking; HTTP/2 iff asked",
                "run": run_from, "check": check_from,
                "cex_extract": lambda p, m: {"family": "version_into_protocol", "version": ev(m, p.ctx.v)},
                "judge": lambda scn, out: out.get("result", "").startswith("panic")})

    # ---- HTTP/1 request-target rewriting without any caller precondition ------------------------------
    f_h1 = prog.find_one(r"^check_http1_request$")

    def run_h1(ctx):
        req = ob_C13.mk_request(ctx, shape_pq=True)
        cv = z3.BitVec("conn_version", 8)
        ctx.assume(z3.ULE(cv, 4))
        ctx.cv = cv
        ex = Agg("struct:ExecuteRequest", [ConnV(cv), req])
        return ctx.exec_fn(f_h1, [ex])

    def check_h1(p):
        if p.outcome == "panic":
            return [("Http1 checks panic: " + str(p.value)[:80], False)]
        return [("witness:reach", z3.BoolVal(True))]

    obs.append({"name": "c17_http1_checks_any_uri", "family": "http1_panic", "funcs": ["service::http::http1::{check_http1_request,authority_form,absolute_form,origin_form}"],
                "bound": "every URI form http::Uri can hold (absolute, authority-form, origin-form, asterisk), every method incl. CONNECT, every connection version; MIR built with debug assertions ON",
                "doc": "the public Http1ChecksLayer never panics, whatever URI form the request carries (ConnectorService / custom pool keys pass relative URIs through)",
                "run": run_h1, "check": check_h1, "cex_extract": ob_C13.scenario("http1"),
                "judge": lambda scn, out: out.get("result", "").startswith("panic")})

    # ---- Host header / HTTP/2 checks never panic ---------------------------------------------------------
    f_set = prog.find_one(r"^set_host_header$")

    def run_set(ctx):
        req = ob_C13.mk_request(ctx)
        ctx.exec_fn(f_set, [Ref(Cell(req, "req"))])

    obs.append({"name": "c17_set_host_header_total", "family": "host_panic", "funcs": ["service::host::set_host_header"],
                "bound": "as C13 (every URI form, Host preset or not)", "doc": "the two `expect`s in set_host_header are unreachable for every well-formed URI",
                "run": run_set, "check": lambda p: [("set_host_header panics: " + str(p.value)[:60], False)] if p.outcome == "panic" else [("witness:reach", z3.BoolVal(True))],
                "cex_extract": ob_C13.scenario("host_request"), "judge": lambda scn, out: out.get("result", "").startswith("panic")})

    # ---- URI -> pool key / host+port are total -----------------------------------------------------------
    f_key = prog.find_one(r"key::<impl at src/client/pool/key\.rs:\d+:\d+: \d+:\d+>::try_from$", r"request::Parts")

    def run_key(ctx):
        u = sym_uri(ctx, userinfo=True)
        ctx.u = u
        # the caller may have set any Host header: the pool key must not depend on it
        hm = HeaderMapV()
        ctx.hdr = None
        if ctx.choose([(True, False), (True, True)], "caller-supplied Host header"):
            from inputs import sym_authority
            from models import HeaderValueV
            ctx.hdr = sym_authority(ctx, "_hdr", 3)
            hm.cell("host").v = HeaderValueV(ctx.hdr.as_str_model(ctx))
        parts = Agg("struct:Parts", [z3.BitVec("method", 8), u, z3.BitVec("version", 8), hm, None])
        return ctx.exec_fn(f_key, [Ref(Cell(parts, "parts"))])

    def check_key(p):
        if p.outcome == "panic":
            return [("UriKey::try_from panics", False)]
        u = p.ctx.u
        r = p.value
        if r.variant == "Err":
            return [("a URI with a scheme must yield a key", z3.Not(u.has_scheme))]
        key = r.f[0]
        sch, auth = key.f[0], key.f[1]
        props = [("a URI without a scheme must be rejected", u.has_scheme)]
        props.append(("the key's scheme is the request URI's scheme", sch.text == u.scheme))
        if auth.variant == "Some":
            props.append(("the key's authority is the request URI's authority (host and port)", z3.And(u.has_auth, z3.BoolVal(auth.f[0] is u.auth))))
        else:
            props.append(("the key drops the authority of the request URI", z3.Not(u.has_auth)))
        return props

    obs.append({"name": "c17_urikey_total", "family": "urikey", "funcs": ["<UriKey as TryFrom<&request::Parts>>::try_from"], "bound": "every URI form",
                "doc": "key extraction returns Ok/Err(MissingScheme), never panics; the key is (scheme, authority) of the request URI", "run": run_key, "check": check_key,
                "cex_extract": lambda p, m: dict({"family": "urikey"}, **uri_scenario(m, p.ctx.u), **({"header.host": __import__("inputs").authority_text(m, p.ctx.hdr)} if getattr(p.ctx, "hdr", None) is not None else {})),
                "judge": judge_key})

    f_hp = prog.find_one(r"^get_host_and_port$")

    def run_hp(ctx):
        u = sym_uri(ctx)
        ctx.u = u
        return ctx.exec_fn(f_hp, [Ref(Cell(u, "uri"))])

    def check_hp(p):
        if p.outcome == "panic":
            return [("get_host_and_port panics", False)]
        u = p.ctx.u
        r = p.value
        if r.variant == "Err":
            known = z3.Or(u.scheme == z3.StringVal("http"), u.scheme == z3.StringVal("https"))
            return [("error only for a missing host or an unknown default port", z3.Or(z3.Not(u.has_auth), z3.And(z3.Not(u.auth.has_port), z3.Not(z3.And(u.has_scheme, known)))))]
        host, port = r.f[0].f
        stripped = u.auth.inner
        exp_port = z3.If(u.auth.has_port, u.auth.port, z3.If(u.scheme == z3.StringVal("https"), z3.BitVecVal(443, 16), z3.BitVecVal(80, 16)))
        return [("host is the URI host without IPv6 brackets", host == stripped), ("port is the URI port or the scheme default", port == exp_port)]

    obs.append({"name": "c17_get_host_and_port_total", "family": "host_and_port", "funcs": ["client::conn::transport::tcp::get_host_and_port"], "bound": "every URI form",
                "doc": "total: Ok((host without brackets, explicit port | 80 for http | 443 for https)) or Err, never panics", "run": run_hp, "check": check_hp,
                "cex_extract": lambda p, m: dict({"family": "tcp_transport"}, **uri_scenario(m, p.ctx.u)),
                "judge": lambda scn, out: out.get("result", "").startswith("panic")})

    # ---- the TLS wrapper and stream constructor (two cooperating sites: the pre-check in
    #      TlsTransportWrapper::call and the `expect` in TlsStream::new); shared with C12 --------------
    obs.append(ob_C13.send_request_obligation(prog, "c17_send_request_any_version", True))
    import ob_C12
    for ob in ob_C12.obligations(prog, src, tier, seed):
        if ob["name"] == "c12_tls_server_name_for_every_host":
            base_check = ob["check"]

            def panics_only(p, base_check=base_check):
                if p.outcome == "panic":
                    return base_check(p)
                return [("witness:reach", z3.BoolVal(True))]
            obs.append(dict(ob, name="c17_tls_stream_for_every_host", check=panics_only,
                            doc="for every syntactically valid URI host (and any caller-supplied Host header) the TLS connect path builds its stream without panicking"))
    return obs
