"""C06: pool step contracts (see ob_pool.py)"""
import ob_pool


def obligations(prog, src, tier, seed):
    obs = ob_pool.obligations(prog, src, tier, seed, "C06", select=['pool_push', 'pool_pop', 'pool_checkout', 'pool_register'])
    import ob_C17
    obs += [o for o in ob_C17.obligations(prog, src, tier, seed) if o["family"] == "urikey"]
    for o in obs:
        if o["family"] == "urikey":
            o["name"] = "c06_urikey_from_request"

    import z3
    from interp import Agg, Cell, Ref
    from ob_pool import token_value
    from pool_models import HashMapV
    f_ins = prog.find_one(r"key::<impl at src/client/pool/key\.rs:\d+:\d+: \d+:\d+>::insert$", r"TokenMap")

    def run_tm(ctx):
        counter = z3.BitVec("counter", 64)
        ctx.assume(counter != 0)
        # the counter is ahead of every token handed out so far unless it wrapped: start from an empty map
        tm = Agg("struct:TokenMap", [counter, HashMapV()])
        cell = Cell(tm, "tokenmap")
        ks = [z3.BitVec(f"key{i}", 64) for i in range(3)]
        ctx.ks, ctx.counter = ks, counter
        ctx.toks = [ctx.exec_fn(f_ins, [Ref(cell), k]) for k in ks]
        ctx.again = ctx.exec_fn(f_ins, [Ref(cell), ks[0]])

    def check_tm(p):
        if p.outcome == "panic":
            return [("TokenMap::insert panics: " + str(p.value)[:60], False)]
        ctx = p.ctx
        ks = ctx.ks
        tv = [t.f[0] for t in ctx.toks]
        props = []
        for t in tv:
            props.append(("a key was given the zero token (which means 'not pool managed')", t.variant == "Some"))
        if all(t.variant == "Some" for t in tv):
            val = [t.f[0] for t in tv]
            # counter values usize::MAX-1 / usize::MAX wrap to 1 and could collide only after 2^64 origins: exclude the last two values before the wrap
            far = z3.ULT(ctx.counter, z3.BitVecVal(2 ** 64 - 3, 64))
            for i in range(3):
                for j in range(i + 1, 3):
                    props.append(("equal keys must share a token and distinct keys must not (origins would share connections)", z3.Implies(far, (ks[i] == ks[j]) == (val[i] == val[j]))))
                    props.append(("equal keys must share a token", z3.Implies(ks[i] == ks[j], val[i] == val[j])))
            a = ctx.again.f[0]
            props.append(("a key's token changed between lookups", a.variant == "Some" and z3.simplify(a.f[0] == val[0])))
        return props

    obs.append({"name": "c06_token_map_injective", "family": "token_map", "funcs": ["client::pool::key::TokenMap::insert"],
                "bound": "3 inserts + 1 repeat with symbolic 64-bit keys, any non-zero counter (distinctness asserted for counters below usize::MAX-2)",
                "doc": "equal keys <=> equal tokens, never the zero token, stable across lookups, counter wrap-around skips zero",
                "run": run_tm, "check": check_tm, "crosscheck": False})
    import os
    import ob_sched
    # two origins double the issue actions: depth 5 keeps the thorough tier within ~20 minutes
    depth = int(os.environ.get("SCHED_DEPTH", "4" if tier == "quick" else "5"))
    obs += ob_sched.obligations(prog, src, tier, seed, "C06", n_req=2, depth=depth, classes=('C06',), origins=(10, 20))
    return obs
