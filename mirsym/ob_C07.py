"""C07: graceful shutdown (crate-local part), see ob_serve.py"""
import ob_serve


def obligations(prog, src, tier, seed):
    return ob_serve.obligations(prog, src, tier, seed, "C07")
