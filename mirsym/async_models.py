"""Futures, timers and wake-ups for executing rustc-lowered coroutines (`async fn` bodies) in virtual time.

What is *executed* are hyperdriver's own resume functions (interp.CoroV).  What is *modelled* here:

* `<T as Future>::poll` dispatch on the kind of future value;
* `tokio::time::timeout` / `Timeout::poll` (tokio 1.x time/timeout.rs: the wrapped future is polled
  first, the deadline second; the deadline is `now + duration` taken when `timeout()` is called);
* `futures_util::stream::FuturesUnordered` (push enqueues the new future as ready-to-run; `poll_next`
  polls only futures that were woken, in wake order, each with its own waker; returns the first
  output; `None` when empty) and `StreamExt::next`;
* wake-ups: a `Context` carries a task id; timers and scripted futures remember the task that polled
  them; the world wakes exactly those tasks.

Virtual time is a z3 Int (nanoseconds) held in `ctx.now`; durations are z3 Ints.
"""
import z3

import pool_models  # noqa: F401  (Instant, Duration, Box, Arc models)
from interp import Agg, Cell, CoroV, Enum, Inconclusive, Opaque, Panic, Ref, UNIT, is_z3, none, some
from models import MODELS, deref, err, model, ok


def PENDING():
    return Enum("Poll", "Pending", 1, [])


def READY(v):
    return Enum("Poll", "Ready", 0, [v])


def task_of(ctx, cx):
    c = deref(ctx, cx)
    if isinstance(c, Agg) and c.kind == "Context":
        return c.f[0]
    return None


def mk_cx(task):
    return Ref(Cell(Agg("Context", [task]), "cx"))


def wake(ctx, task):
    """deliver a wake-up: child tasks of a FuturesUnordered are put on its ready queue and the
    wake-up propagates to whoever polled the set"""
    if task is None:
        return
    if isinstance(task, tuple) and task and task[0] == "fu":
        fu, ent = task[1], task[2]
        if ent in fu.entries and ent not in fu.ready:
            fu.ready.append(ent)
        wake(ctx, fu.waiter)
        return
    ctx.woken.add(task)


# ---------------------------------------------------------------------------------------------------
# polling
# ---------------------------------------------------------------------------------------------------
def poll_value(ctx, ref, cx):
    """poll the future stored behind `ref` (a Ref to the future value)"""
    v = ref
    hops = 0
    while isinstance(v, Ref):
        last_ref = v
        v = ctx.load(v)
        hops += 1
        if hops > 6:
            raise Inconclusive("reference chain while polling")
    if isinstance(v, CoroV):
        if v.state == 1:
            raise Panic("`async fn` resumed after completion")
        return ctx.exec_fn(v.body, [last_ref, cx])
    if hasattr(v, "poll_model"):
        return v.poll_model(ctx, cx)
    raise Inconclusive("poll of " + repr(v)[:80])


@model("<F as Future>::poll", "<{async} as Future>::poll", "<Timeout as Future>::poll", "<Next as Future>::poll", "<Pin as Future>::poll", "<Fut as Future>::poll", "<Instrumented as Future>::poll",
       doc="core: polling a future value: hyperdriver's own coroutines run their MIR resume function; library / scripted futures their model")
def _poll(ctx, a, c):
    return poll_value(ctx, a[0], a[1])


@model("<{async} as IntoFuture>::into_future", "<Timeout as IntoFuture>::into_future", "<Next as IntoFuture>::into_future", "<F as IntoFuture>::into_future",
       doc="core: IntoFuture for a future is the identity")
def _into_future(ctx, a, c):
    return a[0]


# ---------------------------------------------------------------------------------------------------
# tokio::time::timeout
# ---------------------------------------------------------------------------------------------------
class TimeoutV:
    """tokio::time::Timeout<F>: value + deadline (`now + duration` at construction)"""

    def __init__(self, ctx, duration, inner):
        self.inner = Cell(inner, "timeout.value")
        self.deadline = ctx.now + duration
        self.created = ctx.now
        self.duration = duration
        self.waiter = None
        self.done = False
        self.dropped = False
        ctx.timers.append(self)

    def poll_model(self, ctx, cx):
        r = poll_value(ctx, Ref(self.inner), cx)
        if r.variant == "Ready":
            self.done = True
            return READY(ok(r.f[0]))
        if ctx.branch(ctx.now >= self.deadline, "timer elapsed"):
            self.done = True
            return READY(err(Opaque("Elapsed")))
        self.waiter = task_of(ctx, cx)
        return PENDING()

    def mir_drop(self, ctx):
        self.dropped = True
        v, self.inner.v = self.inner.v, None
        if v is not None and not is_z3(v):
            ctx.drop_value(v)


@model("time::timeout", "timeout", doc="tokio::time::timeout(duration, future): deadline = Instant::now() + duration")
def _timeout(ctx, a, c):
    return TimeoutV(ctx, a[0], a[1])


@model("Instant::elapsed", doc="std::time: now - earlier")
def _elapsed(ctx, a, c):
    return ctx.now - deref(ctx, a[0])


# ---------------------------------------------------------------------------------------------------
# FuturesUnordered
# ---------------------------------------------------------------------------------------------------
class FuEntry:
    def __init__(self, fut):
        self.cell = Cell(fut, "fu.task")


class FuturesUnorderedV:
    def __init__(self):
        self.entries = []
        self.ready = []
        self.waiter = None

    def mir_drop(self, ctx):
        ents, self.entries, self.ready = self.entries, [], []
        for e in ents:
            v, e.cell.v = e.cell.v, None
            if v is not None and not is_z3(v):
                ctx.drop_value(v)


def fu_of(ctx, v):
    f = deref(ctx, v)
    if not isinstance(f, FuturesUnorderedV):
        raise Inconclusive("expected FuturesUnordered, got " + repr(f))
    return f


@model("FuturesUnordered::new", "<FuturesUnordered as Default>::default", doc="futures-util: empty set")
def _fu_new(ctx, a, c):
    return FuturesUnorderedV()


@model("FuturesUnordered::push", doc="futures-util: the new future is linked and enqueued as ready to run; the task that polls the set is woken")
def _fu_push(ctx, a, c):
    fu = fu_of(ctx, a[0])
    if hasattr(a[1], "pushed"):
        a[1].pushed += 1
    e = FuEntry(a[1])
    fu.entries.append(e)
    fu.ready.append(e)
    wake(ctx, fu.waiter)
    return UNIT


@model("FuturesUnordered::is_empty", doc="futures-util")
def _fu_is_empty(ctx, a, c):
    return z3.BoolVal(not fu_of(ctx, a[0]).entries)


@model("FuturesUnordered::len", doc="futures-util")
def _fu_len(ctx, a, c):
    return z3.BitVecVal(len(fu_of(ctx, a[0]).entries), 64)


class NextV:
    def __init__(self, fu):
        self.fu = fu

    def poll_model(self, ctx, cx):
        fu = self.fu
        if not fu.entries:
            return READY(none())
        fu.waiter = task_of(ctx, cx)
        # poll the futures that are ready to run, in the order in which they were enqueued
        budget = len(fu.ready) + 4
        while fu.ready and budget > 0:
            budget -= 1
            e = fu.ready.pop(0)
            if e not in fu.entries:
                continue
            r = poll_value(ctx, Ref(e.cell), mk_cx(("fu", fu, e)))
            if r.variant == "Ready":
                fu.entries.remove(e)
                v, e.cell.v = e.cell.v, None
                if v is not None and not is_z3(v):
                    ctx.drop_value(v)
                return READY(some(r.f[0]))
        return PENDING()

    def mir_drop(self, ctx):
        pass


@model("<FuturesUnordered as StreamExt>::next", "StreamExt::next", doc="futures-util: future resolving to the next finished item of the set")
def _fu_next(ctx, a, c):
    return NextV(fu_of(ctx, a[0]))


# ---------------------------------------------------------------------------------------------------
# small core pieces the coroutine bodies use
# ---------------------------------------------------------------------------------------------------
class RangeV:
    def __init__(self, lo, hi):
        self.lo, self.hi = lo, hi


@model("<Range as IntoIterator>::into_iter", doc="core: a Range is its own iterator")
def _range_into_iter(ctx, a, c):
    r = a[0]
    if isinstance(r, Agg) and len(r.f) == 2:
        return RangeV(r.f[0], r.f[1])
    return r


@model("<Range as Iterator>::next", doc="core: next index, None at the end")
def _range_next(ctx, a, c):
    r = deref(ctx, a[0])
    if not isinstance(r, RangeV):
        raise Inconclusive("Range::next on " + repr(r))
    if ctx.branch(z3.ULT(r.lo, r.hi), "range not exhausted"):
        v = r.lo
        r.lo = z3.simplify(r.lo + 1)
        return some(v)
    return none()


@model("Option::get_or_insert_with", doc="core: fills a None with f(), returns &mut to the value")
def _get_or_insert_with(ctx, a, c):
    from models import call_closure, need_opt
    ref = a[0]
    o = ctx.load(ref) if isinstance(ref, Ref) else ref
    need_opt(o)
    if o.variant == "None":
        v = call_closure(ctx, a[1], [])
        ctx.store(ref, some(v))
    return Ref(ref.cell, tuple(ref.path) + (("downcast", "Some"), ("field", 0)))


@model("Result::Err", doc="core: the `Err` constructor used as a function value")
def _result_err_ctor(ctx, a, c):
    return err(a[0])


@model("Result::Ok", doc="core: the `Ok` constructor used as a function value")
def _result_ok_ctor(ctx, a, c):
    return ok(a[0])


@model("RangeInclusive::new", doc="core: lo..=hi")
def _range_incl_new(ctx, a, c):
    r = RangeV(a[0], a[1])
    r.inclusive = True
    return r


@model("<RangeInclusive as IntoIterator>::into_iter", doc="core")
def _range_incl_into_iter(ctx, a, c):
    return a[0]


@model("<RangeInclusive as Iterator>::next", doc="core: next index, None after hi")
def _range_incl_next(ctx, a, c):
    r = deref(ctx, a[0])
    if getattr(r, "done", False):
        return none()
    if ctx.branch(z3.ULE(r.lo, r.hi), "inclusive range not exhausted"):
        v = r.lo
        if ctx.branch(r.lo == r.hi, "last index"):
            r.done = True
        else:
            r.lo = z3.simplify(r.lo + 1)
        return some(v)
    return none()


@model("<FuturesUnordered as Extend>::extend", "FuturesUnordered::extend", doc="futures-util: push every item of the iterator, in order")
def _fu_extend(ctx, a, c):
    from models import IterV
    it = a[1]
    if not isinstance(it, IterV):
        raise Inconclusive("FuturesUnordered::extend from " + repr(it))
    while it.pos < len(it.items):
        x = it.items[it.pos]
        it.pos += 1
        _fu_push(ctx, [a[0], x], c)
    return UNIT


@model("Ord::min", "<usize as Ord>::min", "cmp::min", doc="core: minimum of two unsigned integers")
def _umin(ctx, a, c):
    return z3.If(z3.ULE(a[0], a[1]), a[0], a[1])
