"""Path-wise symbolic executor for rustc MIR with a z3 back end (engine E2, `mirsym`).

* values: z3 terms for scalars and strings, small Python objects for aggregates / enums /
  references / library models;
* exploration: replay-based DFS - a path is identified by its list of decisions, every run
  re-executes from the entry with that prefix, so states never need to be copied;
* every `switchInt` on a symbolic value and every model that has several outcomes is a decision,
  infeasible alternatives are pruned with the solver;
* `assert` terminators, `unreachable`, and panicking library entry points end the path with a
  PANIC outcome (that is what the "never panics" obligations look for);
* unknown callee / unsupported construct => Inconclusive (never "holds").
"""
import os
import re
import z3

from mirparse import MirUnsupported, Program, parse_rvalue, split_top


class Inconclusive(Exception):
    pass


def _cvc5(smt2, timeout_s=240):
    import os
    import subprocess
    import tempfile
    with tempfile.NamedTemporaryFile("w", suffix=".smt2", delete=False) as fh:
        fh.write("(set-logic ALL)\n(set-option :strings-exp true)\n" + smt2.replace("(check-sat)", "") + "\n(check-sat)\n")
        p = fh.name
    try:
        r = subprocess.run(["cvc5", "--lang", "smt2", f"--tlimit={timeout_s * 1000}", p], capture_output=True, text=True, timeout=timeout_s + 10)
        first = (r.stdout.strip().split("\n") or [""])[0].strip()
        return first if "(error" not in r.stdout + r.stderr else "n/a"
    except Exception:
        return "n/a"
    finally:
        os.unlink(p)


class Panic(Exception):
    def __init__(self, msg):
        super().__init__(msg)
        self.msg = msg


class Infeasible(Exception):
    pass


# ------------------------------------------------------------------------------------------------
# values
# ------------------------------------------------------------------------------------------------
class Agg:
    """tuple / struct / array / closure environment"""
    __slots__ = ("kind", "f")

    def __init__(self, kind, fields):
        self.kind = kind
        self.f = list(fields)

    def __repr__(self):
        return f"{self.kind}{self.f}"


class Enum:
    __slots__ = ("ty", "variant", "idx", "f")

    def __init__(self, ty, variant, idx, fields=()):
        self.ty = ty
        self.variant = variant
        self.idx = idx
        self.f = list(fields)

    def __repr__(self):
        return f"{self.ty}::{self.variant}{self.f if self.f else ''}"


class Cell:
    __slots__ = ("v", "name")

    def __init__(self, v=None, name=""):
        self.v = v
        self.name = name


class Ref:
    __slots__ = ("cell", "path")

    def __init__(self, cell, path=()):
        self.cell = cell
        self.path = tuple(path)

    def __repr__(self):
        return f"&{self.cell.name}{list(self.path)}"


class Opaque:
    """a value the executor does not interpret (only moved around)"""
    __slots__ = ("what",)

    def __init__(self, what):
        self.what = what

    def __repr__(self):
        return f"<opaque {self.what}>"


class CoroV:
    """a compiler-generated coroutine (`async fn` / `async` block) in rustc's lowered form: the captured
    variables, the resume-state discriminant (0 = unresumed, 1 = returned, 2 = panicked, >= 3 = suspended at
    an await) and the locals that live across awaits, stored per state variant.  The resume function
    is the `...::{closure#k}` body of the MIR dump; polling the coroutine executes that body."""

    def __init__(self, ty, body, upvars):
        self.ty = ty
        self.body = body
        self.upvars = list(upvars)
        self.state = 0
        self.slots = {}

    def __repr__(self):
        return f"<coroutine {self.ty[:60]} state={self.state}>"

    def mir_field(self, k):
        return self.upvars[k] if k < len(self.upvars) else None

    def mir_set_field(self, k, v):
        while len(self.upvars) <= k:
            self.upvars.append(None)
        self.upvars[k] = v
        return self

    def mir_downcast(self, name):
        return CoroVariant(self, name)

    def mir_discriminant(self, ctx):
        return z3.BitVecVal(self.state, 64)

    def mir_drop(self, ctx):
        # dropping a suspended (or never resumed) coroutine drops what it holds
        if self.state in (1, 2):
            return
        self.state = 1
        vals = [v for v in self.upvars] + [v for _k, v in sorted(self.slots.items(), key=lambda kv: str(kv[0]))]
        self.upvars, self.slots = [], {}
        for v in vals:
            if v is not None and not is_z3(v) and not isinstance(v, Ref):
                ctx.drop_value(v)


class CoroVariant:
    """`(coroutine as variant#N)`: the saved locals of one suspension state"""

    def __init__(self, coro, name):
        self.coro, self.name = coro, name

    def mir_field(self, k):
        return self.coro.slots.get((self.name, k))

    def mir_set_field(self, k, v):
        self.coro.slots[(self.name, k)] = v
        return self


class FnItem:
    __slots__ = ("text",)

    def __init__(self, text):
        self.text = text

    def __repr__(self):
        return f"<fn {self.text}>"


UNIT = Agg("tuple", [])


def some(v):
    return Enum("Option", "Some", 1, [v])


NONE = None  # placeholder, use none()


def none():
    return Enum("Option", "None", 0, [])


def ok(v):
    return Enum("Result", "Ok", 0, [v])


def err(v):
    return Enum("Result", "Err", 1, [v])


STD_ENUMS = {
    "Option": ["None", "Some"],
    "Result": ["Ok", "Err"],
    "Poll": ["Ready", "Pending"],
    "ControlFlow": ["Continue", "Break"],
    "Ordering": ["Less", "Equal", "Greater"],
    "Either": ["Left", "Right"],
    "IpAddr": ["V4", "V6"],
    "SocketAddr": ["V4", "V6"],
    "Cow": ["Borrowed", "Owned"],
}

INT_W = {"u8": 8, "u16": 16, "u32": 32, "u64": 64, "usize": 64, "u128": 128, "i8": 8, "i16": 16, "i32": 32, "i64": 64, "isize": 64, "i128": 128, "char": 32}
SIGNED = {"i8", "i16", "i32", "i64", "isize", "i128"}


def is_z3(v):
    return isinstance(v, z3.ExprRef)


def bv(n, w=64):
    return z3.BitVecVal(n, w)


# ------------------------------------------------------------------------------------------------
# source scanner: struct field order / enum variant order of hyperdriver's own types
# ------------------------------------------------------------------------------------------------
class SourceInfo:
    def __init__(self, src_root, features, debug_assertions=True):
        import os
        self.root = src_root
        self.features = set(features)
        self.debug_assertions = debug_assertions
        self.struct_defs = {}
        self.enum_defs = {}
        self.aliases = {}
        self.structs = {}  # name -> [field names] ; tuple structs -> ["0","1",..]
        self.enums = {}  # name -> [(variant, [field names])]
        self.files = {}
        for d, _s, fs in os.walk(src_root):
            for f in fs:
                if f.endswith(".rs"):
                    p = os.path.join(d, f)
                    txt = open(p).read()
                    rel = os.path.relpath(p, os.path.dirname(src_root))
                    self.files[rel] = txt.split("\n")
                    self._cur = rel
                    self._scan(txt)

    def cfg_ok(self, attr):
        a = attr.replace(" ", "")
        m = re.fullmatch(r'#\[cfg\((.*)\)\]', a)
        if not m:
            return True
        return self._eval(m.group(1))

    def _eval(self, e):
        if e.startswith("not(") and e.endswith(")"):
            return not self._eval(e[4:-1])
        if e.startswith("all(") and e.endswith(")"):
            return all(self._eval(x.strip()) for x in split_top(e[4:-1]))
        if e.startswith("any(") and e.endswith(")"):
            return any(self._eval(x.strip()) for x in split_top(e[4:-1]))
        m = re.fullmatch(r'feature="([^"]+)"', e)
        if m:
            return m.group(1) in self.features
        if e == "debug_assertions":
            return self.debug_assertions
        if e in ("test", "kani", "tarpaulin", "docsrs"):
            return False
        return True

    def _fields(self, body):
        """body of a braces struct / variant -> field names in order (cfg-filtered)"""
        out = []
        pending_ok = True
        # strip comments
        body = re.sub(r"//[^\n]*", "", body)
        for part in split_top(body):
            part = part.strip()
            attrs = re.findall(r"#\[[^\]]*\]", part)
            okk = all(self.cfg_ok(a) for a in attrs)
            part = re.sub(r"#\[[^\]]*\]", "", part).strip()
            m = re.match(r"(?:pub(?:\([^)]*\))?\s+)?([A-Za-z_][A-Za-z0-9_]*)\s*:", part)
            if m and okk:
                out.append(m.group(1))
        return out

    def _scan(self, txt):
        txt2 = re.sub(r"//[^\n]*", "", txt)
        # pin-project projection types mirror the fields / variants of the type they project
        for m in re.finditer(r"#\[(?:pin_project::)?pin_project(?:\(([^\]]*)\))?\]\s*(?:#\[[^\]]*\]\s*)*(?:pub(?:\([^)]*\))?\s+)?(?:enum|struct)\s+([A-Z][A-Za-z0-9_]*)", txt2):
            base = m.group(2)
            for am in re.finditer(r"(project|project_ref|project_replace)\s*=\s*([A-Za-z_][A-Za-z0-9_]*)", m.group(1) or ""):
                self.aliases[am.group(2)] = base
            self.aliases.setdefault("__" + base + "Projection", base)
            self.aliases.setdefault("__" + base + "ProjectionRef", base)
            self.aliases.setdefault("__" + base + "ProjectionOwned", base)
        for m in re.finditer(r"\bstruct\s+([A-Z][A-Za-z0-9_]*)\s*(<[^{;(]*>)?\s*(where[^{;]*)?\{", txt2):
            name = m.group(1)
            i = m.end() - 1
            j = _match_brace(txt2, i)
            self.struct_defs.setdefault(name, []).append((self._cur, self._fields(txt2[i + 1:j])))
            self.structs.setdefault(name, self._fields(txt2[i + 1:j]))
        for m in re.finditer(r"\bstruct\s+([A-Z][A-Za-z0-9_]*)\s*(<[^{;(]*>)?\s*\(", txt2):
            name = m.group(1)
            i = m.end() - 1
            j = _match_brace(txt2, i, "(", ")")
            n = len([x for x in split_top(txt2[i + 1:j]) if x.strip()])
            self.struct_defs.setdefault(name, []).append((self._cur, [str(k) for k in range(n)]))
            self.structs.setdefault(name, [str(k) for k in range(n)])
        for m in re.finditer(r"\benum\s+([A-Z][A-Za-z0-9_]*)\s*(<[^{;]*>)?\s*(where[^{;]*)?\{", txt2):
            name = m.group(1)
            i = m.end() - 1
            j = _match_brace(txt2, i)
            vs = []
            for part in split_top(txt2[i + 1:j]):
                part = part.strip()
                attrs = re.findall(r"#\[[^\]]*\]", part)
                okk = all(self.cfg_ok(a) for a in attrs)
                part = re.sub(r"#\[[^\]]*\]", "", part).strip()
                part = re.sub(r"///[^\n]*", "", part).strip()
                mm = re.match(r"([A-Z][A-Za-z0-9_]*)", part)
                if mm and okk:
                    rest = part[mm.end():].strip()
                    if rest.startswith("{"):
                        vs.append((mm.group(1), self._fields(rest[1:_match_brace(rest, 0)])))
                    elif rest.startswith("("):
                        n = len([x for x in split_top(rest[1:_match_brace(rest, 0, '(', ')')]) if x.strip()])
                        vs.append((mm.group(1), [str(k) for k in range(n)]))
                    else:
                        vs.append((mm.group(1), []))
            self.enum_defs.setdefault(name, []).append((self._cur, vs))
            self.enums.setdefault(name, vs)

    def lookup_enum(self, name, variant, fieldnames, segs):
        """variants of the enum `name` that has `variant` (and these field names); several enums of
        the same name exist in different modules: the path segments of the MIR aggregate break ties"""
        name = self.aliases.get(name, name)
        defs = self.enum_defs.get(name, [])
        c = [(f, vs) for f, vs in defs if any(v == variant and (not fieldnames or set(fieldnames) <= set(fn)) for v, fn in vs)]
        if len(c) > 1:
            def score(f):
                parts = f[:-3].split("/")
                return sum(1 for x in segs if x in parts)
            best = max(score(f) for f, _ in c)
            c = [(f, vs) for f, vs in c if score(f) == best]
        if len(c) == 1:
            return c[0][1]
        if not c:
            return None
        # identical definitions are fine
        if all(vs == c[0][1] for _f, vs in c):
            return c[0][1]
        raise Inconclusive(f"ambiguous enum {name}::{variant} in {[f for f, _ in c]}")

    def lookup_struct(self, name, fieldnames, segs):
        name = self.aliases.get(name, name)
        defs = self.struct_defs.get(name, [])
        c = [(f, fs) for f, fs in defs if not fieldnames or set(fieldnames) <= set(fs)]
        if len(c) > 1:
            def score(f):
                parts = f[:-3].split("/")
                return sum(1 for x in segs if x in parts)
            best = max(score(f) for f, _ in c)
            c = [(f, fs) for f, fs in c if score(f) == best]
        if not c:
            return None
        if len(c) == 1 or all(fs == c[0][1] for _f, fs in c):
            return c[0][1]
        raise Inconclusive(f"ambiguous struct {name} in {[f for f, _ in c]}")

    def impl_header(self, file, line):
        """source text of the impl header starting at file:line (1-based), up to '{'"""
        ls = self.files.get(file)
        if ls is None:
            return ""
        out = []
        k = line - 1
        while k < len(ls) and k < line + 12:
            out.append(ls[k])
            if "{" in ls[k]:
                break
            k += 1
        return " ".join(out)


def _match_brace(s, i, o="{", c="}"):
    depth = 0
    j = i
    while j < len(s):
        if s[j] == o:
            depth += 1
        elif s[j] == c:
            depth -= 1
            if depth == 0:
                return j
        j += 1
    return len(s) - 1


# ------------------------------------------------------------------------------------------------
# callee-name normalisation
# ------------------------------------------------------------------------------------------------
def strip_generics(s):
    """remove every <...> group that follows `::` (turbofish) or an identifier (type args)"""
    out = []
    depth = 0
    i = 0
    n = len(s)
    while i < n:
        ch = s[i]
        if ch == "<":
            if depth == 0 and (i == 0 or s[i - 1] in " (,&"):
                # qualified path `<T as Trait>` at the start: keep, handled by caller
                out.append(ch)
                i += 1
                continue
            depth += 1
        elif ch == ">" and depth > 0 and s[i - 1] != "-":
            depth -= 1
            i += 1
            # drop a directly preceding `::` left over from turbofish
            continue
        if depth == 0:
            out.append(ch)
        i += 1
    r = "".join(out)
    r = r.replace("::::", "::")
    while r.endswith("::"):
        r = r[:-2]
    return r


def last_seg(path):
    path = path.strip().lstrip("&").strip()
    if path.startswith("mut "):
        path = path[4:]
    if path.startswith("dyn "):
        path = path[4:]
    return path.split("::")[-1]


def normalize_callee(c):
    """`Option::<&str>::map::<bool, {closure..}>` -> `Option::map`;
    `<std::iter::Enumerate<X> as IntoIterator>::into_iter` -> `<Enumerate as IntoIterator>::into_iter`;
    `core::str::<impl str>::trim_start_matches::<char>` -> `str::trim_start_matches`"""
    c = c.strip()
    if c.startswith("<"):
        # find matching '>' of the qualified self
        depth = 0
        j = 0
        for j, ch in enumerate(c):
            if ch == "<":
                depth += 1
            elif ch == ">" and c[j - 1] != "-":
                depth -= 1
                if depth == 0:
                    break
        inner = c[1:j]
        rest = c[j + 1:]
        # split at top-level " as "
        depth = 0
        k = None
        i = 0
        while i < len(inner):
            ch = inner[i]
            if ch in "<([{":
                depth += 1
            elif ch in ")]}":
                depth -= 1
            elif ch == ">" and inner[i - 1] != "-":
                depth -= 1
            elif depth == 0 and inner.startswith(" as ", i):
                k = i
            i += 1
        if k is None:
            ty = inner
            tr = None
        else:
            ty = inner[:k]
            tr = inner[k + 4:]
        tyn = _tyname(ty)
        meth = strip_generics(rest)
        if tr is None:
            return f"<{tyn}>{meth}"
        return f"<{tyn} as {last_seg(strip_generics(tr))}>{meth}"
    c2 = re.sub(r"<impl \[.*\]>", "[]", c)
    c2 = re.sub(r"<impl ([^>]*)>", lambda m: _tyname(m.group(1)), c2)
    c2 = strip_generics(c2)
    segs = c2.split("::")
    if len(segs) >= 2:
        return "::".join(segs[-2:])
    return c2


def _tyname(ty):
    ty = ty.strip()
    while ty.startswith("&"):
        ty = ty[1:].strip()
        if ty.startswith("'"):
            ty = ty.split(" ", 1)[1] if " " in ty else ty
        if ty.startswith("mut "):
            ty = ty[4:]
    if ty.startswith("{closure@"):
        return "{closure}"
    if ty.startswith("{async"):
        return "{async}"
    if ty.startswith("["):
        return "[]"
    if ty.startswith("("):
        return "()"
    if ty.startswith("dyn "):
        ty = ty[4:]
    return last_seg(strip_generics(ty))


# ------------------------------------------------------------------------------------------------
# the executor
# ------------------------------------------------------------------------------------------------
class Ctx:
    def __init__(self, prog: Program, src: SourceInfo, models, decisions, loop_bound=8, timeout_ms=240000):
        self.prog = prog
        self.src = src
        self.models = models
        self.decisions = list(decisions)
        self.dpos = 0
        self.taken = []  # (index chosen, number of options)
        self.solver = z3.Solver()
        self.solver.set("timeout", timeout_ms)
        self.pc = []
        self.loop_bound = loop_bound
        self.fresh_n = 0
        self.trace = []
        self.events = []  # model-recorded observable events
        self.depth = 0
        self.steps = 0
        self.queries = 0
        self.caller_file = None

    # ---- decisions -------------------------------------------------------------------------
    def assume(self, cond):
        if cond is True:
            return
        if cond is False:
            raise Infeasible()
        cond = z3.simplify(cond)
        if z3.is_true(cond):
            return
        if z3.is_false(cond):
            raise Infeasible()
        self.pc.append(cond)
        self.solver.add(cond)

    def feasible(self, cond):
        if cond is True:
            return True
        if cond is False:
            return False
        c = z3.simplify(cond)
        if z3.is_true(c):
            return True
        if z3.is_false(c):
            return False
        self.queries += 1
        self.solver.push()
        self.solver.add(c)
        import time as _t
        _t0 = _t.time()
        try:
            r = self.solver.check()
        except z3.Z3Exception:
            # e.g. the sequence solver's "reached max unfolding": same treatment as `unknown`
            r = z3.unknown
        if _t.time() - _t0 > 3 and os.environ.get("MIRSYM_DEBUG"):
            print(f"[slow query {(_t.time() - _t0):.1f}s -> {r}] {str(c)[:300]}", flush=True)
        smt2 = self.solver.to_smt2() if r == z3.unknown else None
        self.solver.pop()
        if r == z3.unknown:
            # z3's sequence solver gives up on some string queries: ask cvc5, then a fresh z3
            r2 = _cvc5(smt2)
            if r2 in ("sat", "unsat"):
                return r2 == "sat"
            s2 = z3.Solver()
            s2.set("timeout", 600000)
            s2.add(*self.pc)
            s2.add(c)
            r = s2.check()
            if r == z3.unknown:
                raise Inconclusive("solver returned unknown on a branch feasibility query (z3 and cvc5)")
        return r == z3.sat

    def choose(self, options, what=""):
        """options: list of (cond, value). Picks one feasible option per path."""
        feas = [(c, v) for (c, v) in options if self.feasible(c)]
        if not feas:
            raise Infeasible()
        if self.dpos < len(self.decisions):
            idx = self.decisions[self.dpos]
        else:
            idx = 0
        if idx >= len(feas):
            raise Infeasible()
        self.dpos += 1
        self.taken.append((idx, len(feas)))
        c, v = feas[idx]
        self.assume(c)
        self.trace.append(f"choose[{what}]={idx}/{len(feas)}")
        return v

    def branch(self, cond, what=""):
        if isinstance(cond, bool):
            return cond
        c = z3.simplify(cond)
        if z3.is_true(c):
            return True
        if z3.is_false(c):
            return False
        return self.choose([(c, True), (z3.Not(c), False)], what)

    def fresh(self, sort, name="v"):
        self.fresh_n += 1
        return z3.Const(f"{name}!{self.fresh_n}", sort)

    def fresh_bool(self, name="b"):
        return self.fresh(z3.BoolSort(), name)

    def fresh_bv(self, w, name="n"):
        return self.fresh(z3.BitVecSort(w), name)

    def fresh_str(self, name="s"):
        return self.fresh(z3.StringSort(), name)

    # ---- memory ----------------------------------------------------------------------------
    def read_path(self, v, path):
        for step in path:
            v = self.project(v, step)
        return v

    def project(self, v, step):
        kind = step[0]
        if kind == "field":
            k = step[1]
            if isinstance(v, (Agg, Enum)):
                if k >= len(v.f):
                    raise Inconclusive(f"field {k} of {v!r}")
                return v.f[k]
            if hasattr(v, "mir_field"):
                return v.mir_field(k)
            if is_z3(v) and k == 0:
                return v  # scalar newtype (http::Version, Token, ...): transparent
            if isinstance(v, Ref) and k == 0:
                return v  # Pin<P> is represented by P: `pin.0` is the pointer itself
            raise Inconclusive(f"field projection .{k} on {type(v).__name__} {v!r}")
        if kind == "downcast":
            if hasattr(v, "mir_downcast"):
                return v.mir_downcast(step[1])
            return v
        if kind == "deref":
            if isinstance(v, Ref):
                return self.load(v)
            if hasattr(v, "mir_deref"):
                return v.mir_deref()
            raise Inconclusive(f"deref of {v!r}")
        if kind == "cindex":
            if isinstance(v, Agg):
                k = step[1] if not step[2] else len(v.f) - step[1]
                return v.f[k]
            raise Inconclusive(f"const index on {v!r}")
        if kind == "index":
            idx = step[1]
            if hasattr(v, "mir_index"):
                return v.mir_index(self, idx)
            if isinstance(v, Agg) and is_z3(idx):
                s = z3.simplify(idx)
                if z3.is_bv_value(s):
                    return v.f[s.as_long()]
            raise Inconclusive(f"symbolic index on {v!r}")
        raise Inconclusive(f"projection {step}")

    def load(self, ref: Ref):
        v = ref.cell.v
        # deref steps inside ref.path chase pointers
        for step in ref.path:
            if step[0] == "deref":
                if isinstance(v, Ref):
                    v = self.load(v)
                else:
                    v = self.project(v, step)
            else:
                v = self.project(v, step)
        return v

    def store(self, ref: Ref, val):
        # find the innermost pointer chase: split path at the last deref
        cell = ref.cell
        path = list(ref.path)
        # resolve derefs progressively
        cur_cell = cell
        cur_path = []
        for step in path:
            if step[0] == "deref":
                inner = self.read_path(cur_cell.v, cur_path)
                if not isinstance(inner, Ref):
                    raise Inconclusive(f"store through non-reference {inner!r}")
                # flatten
                cur_cell = inner.cell
                cur_path = list(inner.path)
                # inner.path may itself contain derefs: recurse by restarting
                if any(s[0] == "deref" for s in cur_path):
                    return self.store(Ref(cur_cell, cur_path + path[path.index(step) + 1:]), val)
            else:
                cur_path.append(step)
        cur_cell.v = self._update(cur_cell.v, cur_path, val)

    def _update(self, v, path, val):
        if not path:
            return val
        step = path[0]
        if step[0] == "downcast":
            if hasattr(v, "mir_downcast"):
                self._update(v.mir_downcast(step[1]), path[1:], val)
                return v
            return self._update(v, path[1:], val)
        if step[0] in ("field", "cindex"):
            k = step[1]
            if isinstance(v, Agg):
                nf = list(v.f)
                while len(nf) <= k:
                    nf.append(None)
                nf[k] = self._update(nf[k], path[1:], val)
                return Agg(v.kind, nf)
            if isinstance(v, Enum):
                nf = list(v.f)
                while len(nf) <= k:
                    nf.append(None)
                nf[k] = self._update(nf[k], path[1:], val)
                return Enum(v.ty, v.variant, v.idx, nf)
            if v is None:
                nf = [None] * (k + 1)
                nf[k] = self._update(None, path[1:], val)
                return Agg("partial", nf)
            if hasattr(v, "mir_set_field"):
                return v.mir_set_field(k, self._update(v.mir_field(k), path[1:], val))
        raise Inconclusive(f"store into {v!r} at {path}")

    # ---- evaluation ------------------------------------------------------------------------
    def eval_place_ref(self, frame, place) -> Ref:
        kind = place[0]
        if kind == "local":
            return Ref(frame[place[1]], ())
        if kind == "deref":
            base = self.eval_place_ref(frame, place[1])
            return Ref(base.cell, base.path + (("deref",),))
        if kind == "field":
            base = self.eval_place_ref(frame, place[1])
            return Ref(base.cell, base.path + (("field", place[2]),))
        if kind == "downcast":
            base = self.eval_place_ref(frame, place[1])
            return Ref(base.cell, base.path + (("downcast", place[2]),))
        if kind == "cindex":
            base = self.eval_place_ref(frame, place[1])
            return Ref(base.cell, base.path + (("cindex", place[2], place[3]),))
        if kind == "index":
            base = self.eval_place_ref(frame, place[1])
            idx = self.load(self.eval_place_ref(frame, place[2]))
            return Ref(base.cell, base.path + (("index", idx),))
        raise Inconclusive(f"place {place}")

    def canon_ref(self, ref: Ref) -> Ref:
        """resolve deref steps now, so that the reference stays valid if the pointer local changes"""
        cell = ref.cell
        path = []
        for step in ref.path:
            if step[0] == "deref":
                inner = self.read_path(cell.v, path)
                if isinstance(inner, Ref):
                    inner = self.canon_ref(inner)
                    cell = inner.cell
                    path = list(inner.path)
                else:
                    path.append(step)
            else:
                path.append(step)
        return Ref(cell, path)

    def eval_operand(self, frame, fn, op):
        k = op[0]
        if k in ("copy", "move"):
            return self.load(self.eval_place_ref(frame, op[1]))
        if k == "const":
            return self.eval_const(op[1], fn)
        if k == "fnitem":
            return FnItem(op[1])
        raise Inconclusive(f"operand {op}")

    def eval_const(self, text, fn=None):
        t = text.strip()
        if t == "true":
            return z3.BoolVal(True)
        if t == "false":
            return z3.BoolVal(False)
        m = re.fullmatch(r"(-?\d+)_([iu](?:8|16|32|64|128|size))", t)
        if m:
            return z3.BitVecVal(int(m.group(1)), INT_W[m.group(2)])
        m = re.fullmatch(r"(-?[0-9.]+(?:[eE][-+]?[0-9]+)?)_?f(32|64)", t)
        if m:
            return z3.RealVal(m.group(1))
        if t == "()":
            return UNIT
        if t.startswith('"') and t.endswith('"'):
            return z3.StringVal(_unescape(t[1:-1]))
        if t.startswith('b"') and t.endswith('"'):
            return Agg("bytes", list(_unescape_bytes(t[2:-1])))
        if t.startswith("'") and t.endswith("'"):
            s = _unescape(t[1:-1])
            return z3.BitVecVal(ord(s), 32)
        if t.startswith("ZeroSized:"):
            ty = t[len("ZeroSized:"):].strip()
            if ty.startswith("{closure@"):
                return Agg("closure:" + ty, [])
            if ty.startswith("fn(") or "::" in ty or re.match(r"[a-z_]", ty):
                return FnItem(ty)
            return Agg("zst:" + ty, [])
        m = re.fullmatch(r"\{(alloc\d+): (.*)\}", t)
        if m:
            return Opaque("static " + m.group(2))
        mp = re.search(r"::promoted\[(\d+)\]$", t)
        if mp and fn is not None:
            cands = self.prog.by_name.get(f"{fn.name}::promoted[{mp.group(1)}]", [])
            if len(cands) == 1:
                return self.exec_fn(cands[0], [])
            raise Inconclusive("promoted constant not found: " + t)
        if re.match(r"[A-Za-z_<]", t):
            mm = self.models.get("const:" + normalize_callee(t)) if self.models else None
            if mm is not None:
                return mm(self)
            cands = self.prog.by_name.get("const " + strip_generics(t).split("::")[-1], [])
            if len(cands) == 1 and "::" in t:
                return self.exec_fn(cands[0], [])
            return Opaque("const " + t)
        raise Inconclusive("constant " + t)

    def eval_rvalue(self, frame, fn, text):
        rv = parse_rvalue(text)
        k = rv[0]
        if k == "use":
            return self.eval_operand(frame, fn, rv[1])
        if k == "ref":
            return self.canon_ref(self.eval_place_ref(frame, rv[1]))
        if k == "discriminant":
            v = self.load(self.eval_place_ref(frame, rv[1]))
            if isinstance(v, Enum):
                return z3.BitVecVal(v.idx, 64)
            if z3.is_bv(v):
                return z3.ZeroExt(64 - v.size(), v) if v.size() < 64 else v
            if hasattr(v, "mir_discriminant"):
                return v.mir_discriminant(self)
            raise Inconclusive(f"discriminant of {v!r}")
        if k == "tuple":
            return Agg("tuple", [self.eval_operand(frame, fn, o) for o in rv[1]])
        if k == "array":
            return Agg("array", [self.eval_operand(frame, fn, o) for o in rv[1]])
        if k == "closure":
            caps = [self.eval_operand(frame, fn, o) for o in rv[2]]
            if rv[1].startswith("{coroutine@") and getattr(self, "coroutines", False):
                mk = re.search(r"\(#(\d+)\)\}$", rv[1])
                body = self.prog.by_name.get(f"{fn.name}::{{closure#{mk.group(1) if mk else 0}}}", [])
                body = [b for b in body if len(b.args) == 2]
                if len(body) >= 1 and all(b.text == body[0].text for b in body[1:]):
                    return CoroV(rv[1], body[0], caps)
                raise Inconclusive(f"resume function of {rv[1]} not found ({len(body)} candidates)")
            return Agg("closure:" + rv[1], caps)
        if k == "adt_unit":
            return self.make_adt(rv[1], [], None)
        if k == "adt_tuple":
            return self.make_adt(rv[1], [self.eval_operand(frame, fn, o) for o in rv[2]], None)
        if k == "adt_struct":
            names = [n for n, _ in rv[2]]
            return self.make_adt(rv[1], [self.eval_operand(frame, fn, o) for _, o in rv[2]], names)
        if k == "binop":
            a = self.eval_operand(frame, fn, rv[2])
            b = self.eval_operand(frame, fn, rv[3])
            return self.binop(rv[1], a, b, fn, rv)
        if k == "unop":
            a = self.eval_operand(frame, fn, rv[2])
            if rv[1] == "Not":
                if z3.is_bool(a):
                    return z3.Not(a)
                return ~a
            if rv[1] == "Neg":
                return -a
            if rv[1] == "PtrMetadata":
                v = a
                while isinstance(v, Ref):
                    v = self.load(v)
                if hasattr(v, "mir_len"):
                    return v.mir_len(self)
                if isinstance(v, Agg):
                    return z3.BitVecVal(len(v.f), 64)
                if is_z3(v) and v.sort() == z3.StringSort():
                    from models import len_bv
                    return len_bv(self, v)
            raise Inconclusive("unop " + rv[1])
        if k == "cast":
            v = self.eval_operand(frame, fn, rv[1])
            ty = rv[2]
            kind = rv[3]
            if kind.startswith("IntToInt"):
                w = INT_W.get(ty)
                if w is None or not z3.is_bv(v):
                    if z3.is_bool(v) and w:
                        return z3.If(v, z3.BitVecVal(1, w), z3.BitVecVal(0, w))
                    raise Inconclusive(f"cast to {ty}")
                if w == v.size():
                    return v
                if w < v.size():
                    return z3.Extract(w - 1, 0, v)
                src_ty = self._operand_type(frame, fn, rv[1])
                if src_ty in SIGNED:
                    return z3.SignExt(w - v.size(), v)
                return z3.ZeroExt(w - v.size(), v)
            # pointer coercions, transmutes of references: identity on our values
            return v
        if k == "len":
            v = self.load(self.eval_place_ref(frame, rv[1]))
            if isinstance(v, Agg):
                return z3.BitVecVal(len(v.f), 64)
            raise Inconclusive("Len of " + repr(v))
        if k == "repeat":
            v = self.eval_operand(frame, fn, rv[1])
            try:
                n = int(rv[2])
            except ValueError:
                raise Inconclusive("repeat count " + rv[2])
            return Agg("array", [v] * n)
        raise Inconclusive("rvalue " + text[:80])

    def _operand_type(self, frame, fn, op):
        if op[0] in ("copy", "move") and op[1][0] == "local":
            return fn.locals.get(op[1][1], "")
        if op[0] in ("copy", "move") and op[1][0] == "field":
            return op[1][3]
        return ""

    def binop(self, op, a, b, fn=None, rv=None):
        if op in ("Eq", "Ne") and ((z3.is_arith(a) and z3.is_bv(b)) or (z3.is_arith(b) and z3.is_bv(a))):
            if z3.is_bv(b) and z3.is_bv_value(z3.simplify(b)):
                b = z3.IntVal(z3.simplify(b).as_long())
            elif z3.is_bv(a) and z3.is_bv_value(z3.simplify(a)):
                a = z3.IntVal(z3.simplify(a).as_long())
        if op in ("Eq", "Ne"):
            if isinstance(a, Enum) and isinstance(b, Enum):
                r = z3.BoolVal(a.idx == b.idx)
            else:
                r = a == b
            return r if op == "Eq" else z3.Not(r)
        if z3.is_bool(a) and op in ("BitAnd", "BitOr", "BitXor"):
            return {"BitAnd": z3.And, "BitOr": z3.Or, "BitXor": z3.Xor}[op](a, b)
        # time quantities (Instant / Duration and what is derived from them, e.g. `as_millis()`) are integers in
        # this encoding; a machine-integer constant they are compared with is read as that integer
        if z3.is_arith(a) and z3.is_bv(b) and z3.is_bv_value(z3.simplify(b)):
            b = z3.IntVal(z3.simplify(b).as_long())
        elif z3.is_arith(b) and z3.is_bv(a) and z3.is_bv_value(z3.simplify(a)):
            a = z3.IntVal(z3.simplify(a).as_long())
        if op in ("Eq", "Ne") and z3.is_arith(a) and z3.is_arith(b):
            return a == b if op == "Eq" else a != b
        if z3.is_arith(a) and z3.is_arith(b):
            if op in ("Lt", "Le", "Gt", "Ge"):
                return {"Lt": a < b, "Le": a <= b, "Gt": a > b, "Ge": a >= b}[op]
            if op in ("Add", "Sub", "Mul"):
                return {"Add": a + b, "Sub": a - b, "Mul": a * b}[op]
        if not (z3.is_bv(a) and z3.is_bv(b)):
            raise Inconclusive(f"binop {op} on {a!r},{b!r}")
        signed = False
        if rv is not None and fn is not None:
            ty = self._operand_type(None, fn, rv[2]) or self._operand_type(None, fn, rv[3])
            signed = ty in SIGNED
        if op == "Lt":
            return a < b if signed else z3.ULT(a, b)
        if op == "Le":
            return a <= b if signed else z3.ULE(a, b)
        if op == "Gt":
            return a > b if signed else z3.UGT(a, b)
        if op == "Ge":
            return a >= b if signed else z3.UGE(a, b)
        if op in ("Add", "AddUnchecked"):
            return a + b
        if op in ("Sub", "SubUnchecked"):
            return a - b
        if op in ("Mul", "MulUnchecked"):
            return a * b
        if op == "BitAnd":
            return a & b
        if op == "BitOr":
            return a | b
        if op == "BitXor":
            return a ^ b
        if op == "AddWithOverflow":
            w = a.size()
            if signed:
                ovf = z3.Or(z3.Not(z3.BVAddNoOverflow(a, b, True)), z3.Not(z3.BVAddNoUnderflow(a, b)))
            else:
                ovf = z3.Not(z3.BVAddNoOverflow(a, b, False))
            return Agg("tuple", [a + b, ovf])
        if op == "SubWithOverflow":
            if signed:
                ovf = z3.Or(z3.Not(z3.BVSubNoOverflow(a, b)), z3.Not(z3.BVSubNoUnderflow(a, b, True)))
            else:
                ovf = z3.ULT(a, b)
            return Agg("tuple", [a - b, ovf])
        if op == "Div":
            return a / b if signed else z3.UDiv(a, b)
        if op == "Rem":
            return z3.SRem(a, b) if signed else z3.URem(a, b)
        raise Inconclusive("binop " + op)

    def make_adt(self, path, vals, names):
        """`Option::<T>::Some(x)`, `Pooled::<C,B> { .. }`, `IpVersion::V4` ..."""
        p = strip_generics(path)
        segs = p.split("::")
        last = segs[-1]
        # enum variant?
        if len(segs) >= 2:
            ty = segs[-2]
            if ty in STD_ENUMS and last in STD_ENUMS[ty]:
                return Enum(ty, last, STD_ENUMS[ty].index(last), vals)
            vs = self.src.lookup_enum(ty, last, names, segs[:-2]) if self.src.aliases.get(ty, ty) in self.src.enum_defs else None
            if vs is not None:
                for i, (vn, fns) in enumerate(vs):
                    if vn == last:
                        if names:
                            order = {n: i2 for i2, n in enumerate(fns)}
                            arr = [None] * len(fns)
                            for n, v in zip(names, vals):
                                arr[order[n]] = v
                            vals = arr
                        return Enum(ty, last, i, vals)
        mm = self.models.get("adt:" + last) if self.models else None
        if mm is not None:
            return mm(self, vals, names)
        fns = self.src.lookup_struct(last, names, segs[:-1]) if self.src.aliases.get(last, last) in self.src.struct_defs else None
        if fns is not None:
            if names:
                order = {n: i2 for i2, n in enumerate(fns)}
                arr = [None] * len(fns)
                for n, v in zip(names, vals):
                    if n not in order:
                        raise Inconclusive(f"struct {last}: unknown field {n}")
                    arr[order[n]] = v
                vals = arr
            return Agg("struct:" + last, vals)
        if names is None and not vals and len(segs) >= 2 and segs[-2] not in self.src.enums:
            # unit struct / PhantomData etc.
            return Agg("struct:" + last, [])
        if names is None and not vals and len(segs) == 1:
            # bare unit variant of a foreign enum (e.g. io::ErrorKind::ConnectionReset): uninterpreted
            return Opaque("variant " + last)
        if names and last in ("Range", "RangeFrom", "RangeTo", "RangeInclusive"):
            return Agg("struct:" + last, vals)
        raise Inconclusive(f"aggregate of unknown type {path}")

    # ---- function execution ------------------------------------------------------------------
    def call(self, callee, args, caller=None):
        key = normalize_callee(callee)
        m = self.models.get(key)
        if m is not None:
            self.trace.append("model " + key)
            return m(self, args, callee)
        # hyperdriver's own function?
        f = self.resolve(callee, args, caller)
        if f is not None:
            if "::_::<impl" in f.name and f.name.endswith(">::project_replace"):
                return self.pin_project_replace(f, args)
            return self.exec_fn(f, args)
        if key.startswith("<"):
            # `<T as Trait>::m`: fall back to the trait-level / type-level model
            mm = re.fullmatch(r"<(.*) as (.*)>::(.*)", key)
            if mm:
                m = self.models.get(f"{mm.group(2)}::{mm.group(3)}") or self.models.get(f"{mm.group(1)}::{mm.group(3)}")
        if m is not None:
            self.trace.append("model " + key)
            return m(self, args, callee)
        if getattr(self, "opaque_calls", False):
            # opt-in (obligations about pure data shuffling): an unknown callee yields an uninterpreted value
            self.trace.append("opaque " + key)
            return Opaque("result of " + key)
        raise Inconclusive(f"unknown callee `{callee}` (normalised `{key}`)")

    def pin_project_replace(self, f, args):
        """pin-project's generated `project_replace(self: Pin<&mut T>, replacement) -> TProjOwn`:
        raw-pointer glue (overwrite guard, ptr::read of the unpinned fields, drop-in-place of the pinned
        ones).  Its effect is reproduced directly: which fields are moved out is read off the generated
        MIR (`ptr::read` of a field), the others are dropped; the place receives the replacement."""
        ref, repl = args
        while isinstance(ref, Ref) and isinstance(self.load(ref), Ref):
            ref = self.load(ref)
        old = self.load(ref)
        text = "\n".join(f.text)
        fld = {}  # local -> (variant or None, field index)
        for m in re.finditer(r"(_\d+) = &mut \(\(\(\*_\d+\) as (\w+)\)\.(\d+): ", text):
            fld[m.group(1)] = (m.group(2), int(m.group(3)))
        for m in re.finditer(r"(_\d+) = &mut \(\(\*_\d+\)\.(\d+): ", text):
            fld[m.group(1)] = (None, int(m.group(2)))
        raw = {m.group(1): m.group(2) for m in re.finditer(r"(_\d+) = &raw const \(\*(_\d+)\)", text)}
        moved = set()
        for m in re.finditer(r"ptr::read::<[^\n]*>\(move (_\d+)\)", text):
            src_local = raw.get(m.group(1))
            if src_local in fld:
                moved.add(fld[src_local])
        rty = re.sub(r"<.*", "", f.ret.strip()).split("::")[-1] if getattr(f, "ret", None) else "ProjOwn"
        if isinstance(old, Enum):
            nf, dropped = [], []
            for k, v in enumerate(old.f):
                if (old.variant, k) in moved:
                    nf.append(v)
                else:
                    nf.append(Opaque("PhantomData"))
                    dropped.append(v)
            out = Enum(rty, old.variant, old.idx, nf)
        elif isinstance(old, Agg):
            nf, dropped = [], []
            for k, v in enumerate(old.f):
                if (None, k) in moved:
                    nf.append(v)
                else:
                    nf.append(Opaque("PhantomData"))
                    dropped.append(v)
            out = Agg("struct:" + rty, nf)
        else:
            raise Inconclusive("project_replace on " + repr(old))
        self.store(ref, repl)
        for v in dropped:
            if v is not None and not is_z3(v) and not isinstance(v, Ref):
                self.drop_value(v)
        return out

    def resolve(self, callee, args, caller=None):
        c = callee.strip()
        if c.startswith("{closure@") or "::{closure#" in c:
            return None
        plain = strip_generics(c)
        if "::" not in plain and not plain.startswith("<"):
            cands = self.prog.by_name.get(plain, [])
            cands = [f for f in cands if len(f.args) == len(args)]
            if len(cands) == 1:
                return cands[0]
            if len(cands) > 1:
                # tuple-struct / variant constructors are dumped twice (runtime MIR and "MIR FOR CTFE")
                if all(f.args == cands[0].args and f.text == cands[0].text for f in cands[1:]):
                    return cands[0]
                raise Inconclusive(f"ambiguous free function {plain}")
            return None
        # enum-variant / tuple-struct constructors used as function values (`map(Eyeball::Timeout)`): the dump
        # has them as `fn Enum::Variant(..)`
        if not plain.startswith("<"):
            cands = [f for f in self.prog.by_name.get(plain, []) if len(f.args) == len(args)]
            if cands and all(f.args == cands[0].args and f.text == cands[0].text for f in cands[1:]):
                return cands[0]
        # pin-project generated inherent impls: `module::_::<impl Type<..>>::project`
        mpp = re.search(r"::_::<impl ([A-Za-z_][A-Za-z0-9_:]*)", c)
        if mpp:
            ty, meth0 = mpp.group(1).split("::")[-1], strip_generics(c).split("::")[-1]
            modpfx = c.split("::_::")[0].lstrip("<")
            cands = [f for f in self.prog.funcs if "::_::<impl at " in f.name and f.name.endswith(">::" + meth0) and len(f.args) == len(args)
                     and f.args and re.search(r"\b" + ty + r"\b", f.args[0][1])]
            if len(cands) > 1:
                narrowed = [f for f in cands if f.name.startswith(modpfx + "::_::")]
                if narrowed:
                    cands = narrowed
            if len(cands) == 1:
                return cands[0]
            if len(cands) > 1:
                raise Inconclusive(f"ambiguous pin-project method {c}")
        # function nested inside a method (`...::drop::__drop_inner`)
        segs = [x for x in re.sub(r"^<.*?>::", "", plain).split("::") if x]
        if len(segs) >= 2 and plain.startswith("<"):
            suffix = "::" + "::".join(segs[-2:])
            nested = [f for f in self.prog.funcs if f.name.endswith(suffix) and len(f.args) == len(args)]
            if len(nested) > 1:
                mq = re.match(r"<\s*([A-Za-z_][A-Za-z0-9_]*)", plain)
                if mq:
                    nested = [f for f in nested if f.args and re.search(r"\b" + mq.group(1) + r"\b", f.args[0][1])]
            if len(nested) == 1:
                return nested[0]
        # method / associated function
        meth = plain.split("::")[-1]
        if plain.startswith("<"):
            mm = re.fullmatch(r"<(.*) as (.*)>::(.*)", normalize_callee(c))
            selfty, trait = (mm.group(1), mm.group(2)) if mm else (None, None)
        else:
            selfty, trait = plain.split("::")[-2], None
        cands = []
        for f in self.prog.funcs:
            if not f.name.endswith(">::" + meth) or len(f.args) != len(args):
                continue
            m2 = re.search(r"<impl at (src/[^:]+):(\d+):\d+: \d+:\d+>::" + re.escape(meth) + "$", f.name)
            if not m2:
                continue
            hdr = self.src.impl_header(m2.group(1), int(m2.group(2)))
            hs, ht = _impl_self(hdr)
            if hs == selfty and (trait is None or ht == trait or ht is None and trait is None):
                if trait is None and ht is not None:
                    # inherent call syntax `Type::method` can still be a trait method; accept
                    pass
                cands.append(f)
        if len(cands) == 1:
            return cands[0]
        if len(cands) > 1:
            # two impls of the same trait for the same type that differ only in the path of a generic argument
            # (`TryFrom<std::..::SocketAddr>` / `TryFrom<tokio::..::SocketAddr>`): the callee text carries the full
            # path, the impl header is the source text - narrow by it
            mr = re.search(r" as [A-Za-z_:]+<([^<>]+)>>::", str(callee))
            if mr:
                inner = mr.group(1).strip()
                narrowed = []
                for f in cands:
                    m3 = re.search(r"<impl at (src/[^:]+):(\d+):\d+: \d+:\d+>::", f.name)
                    if m3 and inner in self.src.impl_header(m3.group(1), int(m3.group(2))):
                        narrowed.append(f)
                if len(narrowed) == 1:
                    return narrowed[0]
            # prefer inherent impls when called with inherent syntax
            raise Inconclusive(f"ambiguous method {callee}: {[f.name for f in cands]}")
        return None

    def exec_fn(self, fn, args):
        self.depth += 1
        if self.depth > 40:
            raise Inconclusive("call depth")
        blocks = self.prog.body(fn)
        frame = {}
        for n, ty in fn.locals.items():
            frame[n] = Cell(None, f"{fn.short()}._{n}")
        frame[0] = Cell(None, f"{fn.short()}._0")
        if len(args) != len(fn.args):
            raise Inconclusive(f"arity mismatch calling {fn.name}")
        for (n, _ty), v in zip(fn.args, args):
            frame[n].v = v
        bb = "bb0"
        visits = {}
        while True:
            visits[bb] = visits.get(bb, 0) + 1
            if visits[bb] > self.loop_bound:
                raise Inconclusive(f"loop bound {self.loop_bound} exceeded in {fn.name} at {bb} (unwinding obligation failed)")
            stmts, term = blocks[bb]
            for st in stmts:
                self.steps += 1
                if st[0] == "assign":
                    val = self.eval_rvalue(frame, fn, st[2])
                    self.store(self.eval_place_ref(frame, st[1]), val)
                elif st[0] == "setdiscr":
                    ref = self.eval_place_ref(frame, st[1])
                    v = self.load(ref)
                    if isinstance(v, CoroV):
                        v.state = st[2]
                    else:
                        raise Inconclusive("SetDiscriminant")
            k = term[0]
            if k == "goto":
                bb = term[1]
            elif k == "return":
                self.depth -= 1
                return frame[0].v if frame[0].v is not None else UNIT
            elif k == "unreachable":
                raise Panic(f"MIR `unreachable` reached in {fn.name} {bb}")
            elif k == "resume":
                raise Inconclusive("resume")
            elif k == "switch":
                v = self.eval_operand(frame, fn, term[1])
                bb = self.switch(v, term[2], fn)
            elif k == "drop":
                v = self.load(self.eval_place_ref(frame, term[1]))
                self.drop_value(v)
                bb = term[2]["return"]
            elif k == "assert":
                cond = self.eval_operand(frame, fn, term[1])
                if term[2]:
                    cond = z3.Not(cond)
                if self.branch(cond, "assert"):
                    bb = term[4]["success"]
                else:
                    raise Panic(f"MIR assert failed: {term[3][:80]} in {fn.name}")
            elif k == "call":
                dest, callee, aops, targets = term[1], term[2], term[3], term[4]
                argv = [self.eval_operand(frame, fn, a) for a in aops]
                rv = self.call(callee, argv, fn)
                if "return" not in targets:
                    raise Inconclusive(f"diverging call {callee} returned")
                if dest is not None:
                    self.store(self.eval_place_ref(frame, dest), rv)
                bb = targets["return"]
            else:
                raise Inconclusive(f"terminator {k}")

    def switch(self, v, targets, fn):
        arms = [(k, t) for k, t in targets.items() if k not in ("otherwise", "unwind")]
        other = targets.get("otherwise")
        if z3.is_bool(v):
            opts = []
            for k, t in arms:
                opts.append((v if int(k) != 0 else z3.Not(v), t))
            if other is not None:
                covered = [int(k) != 0 for k, _ in arms]
                if True not in covered:
                    opts.append((v, other))
                elif False not in covered:
                    opts.append((z3.Not(v), other))
            return self.choose(opts, "switch")
        if z3.is_bv(v):
            s = z3.simplify(v)
            if z3.is_bv_value(s):
                n = s.as_long()
                for k, t in arms:
                    if int(k) % (1 << s.size()) == n:
                        return t
                if other is None:
                    raise Panic("switchInt without matching arm")
                return other
            opts = []
            neg = []
            for k, t in arms:
                c = v == z3.BitVecVal(int(k), v.size())
                opts.append((c, t))
                neg.append(z3.Not(c))
            if other is not None:
                opts.append((z3.And(*neg) if neg else True, other))
            return self.choose(opts, "switch")
        raise Inconclusive(f"switchInt on {v!r}")

    def drop_value(self, v):
        """drop glue: hyperdriver types with a Drop impl run it (ctx.drop_impls: kind -> MIR function),
        then fields are dropped; model objects observe drops through mir_drop"""
        impls = getattr(self, "drop_impls", None)
        if impls and isinstance(v, Agg) and v.kind in impls:
            cell = Cell(v, "dropping")
            self.exec_fn(impls[v.kind], [Ref(cell)])
            v = cell.v
            for x in v.f:
                if x is not None and not is_z3(x):
                    self.drop_value(x)
            return
        if hasattr(v, "mir_drop"):
            v.mir_drop(self)
        elif isinstance(v, (Agg, Enum)):
            for x in v.f:
                if x is not None and not is_z3(x):
                    self.drop_value(x)
        elif isinstance(v, Ref):
            pass


def _impl_self(hdr):
    """`impl<C, B> Trait<X> for PoolInner<C, B> where` -> ('PoolInner', 'Trait')"""
    h = hdr.strip()
    h = re.sub(r"^(unsafe\s+)?impl\s*", "", h)
    if h.startswith("<"):
        depth = 0
        for j, ch in enumerate(h):
            if ch == "<":
                depth += 1
            elif ch == ">" and h[j - 1] != "-":
                depth -= 1
                if depth == 0:
                    h = h[j + 1:].strip()
                    break
    h = h.split("{")[0]
    h = re.split(r"\bwhere\b", h)[0].strip()
    # split on top-level " for "
    depth = 0
    k = None
    i = 0
    while i < len(h):
        ch = h[i]
        if ch == "<":
            depth += 1
        elif ch == ">" and h[i - 1] != "-":
            depth -= 1
        elif depth == 0 and h.startswith(" for ", i):
            k = i
            break
        i += 1
    if k is None:
        return _tyname(h), None
    return _tyname(h[k + 5:]), _tyname(h[:k])


def _unescape(s):
    out = []
    i = 0
    while i < len(s):
        c = s[i]
        if c == "\\":
            n = s[i + 1]
            if n == "n":
                out.append("\n"); i += 2
            elif n == "r":
                out.append("\r"); i += 2
            elif n == "t":
                out.append("\t"); i += 2
            elif n == "0":
                out.append("\0"); i += 2
            elif n == "x":
                out.append(chr(int(s[i + 2:i + 4], 16))); i += 4
            elif n == "u":
                j = s.index("}", i)
                out.append(chr(int(s[i + 3:j], 16))); i = j + 1
            else:
                out.append(n); i += 2
        else:
            out.append(c); i += 1
    return "".join(out)


def _unescape_bytes(s):
    return [ord(c) for c in _unescape(s)]


# ------------------------------------------------------------------------------------------------
# exploration
# ------------------------------------------------------------------------------------------------
class PathResult:
    def __init__(self, outcome, value, ctx):
        self.outcome = outcome  # 'return' | 'panic'
        self.value = value
        self.pc = list(ctx.pc)
        self.events = list(ctx.events)
        self.trace = ctx.trace
        self.ctx = ctx


def explore(prog, src, models, run, max_paths=4000, loop_bound=8, deadline=None):
    """run(ctx) -> value. Returns (paths, stats). Raises Inconclusive."""
    import time as _time
    work = [[]]
    paths = []
    stats = {"paths": 0, "infeasible": 0, "queries": 0, "steps": 0}
    while work:
        if deadline is not None and _time.time() > deadline:
            raise Inconclusive(f"wall-clock budget of this obligation exceeded after {stats['paths']} paths")
        dec = work.pop()
        ctx = Ctx(prog, src, models, dec, loop_bound=loop_bound)
        res = None
        try:
            v = run(ctx)
            res = PathResult("return", v, ctx)
        except Panic as p:
            res = PathResult("panic", p.msg, ctx)
        except Infeasible:
            stats["infeasible"] += 1
        stats["queries"] += ctx.queries
        stats["steps"] += ctx.steps
        # schedule the alternatives of every decision made beyond the given prefix
        for i in range(len(dec), len(ctx.taken)):
            idx, n = ctx.taken[i]
            for alt in range(idx + 1, n):
                work.append([t[0] for t in ctx.taken[:i]] + [alt])
        if res is not None:
            paths.append(res)
            stats["paths"] += 1
            if stats["paths"] > max_paths:
                raise Inconclusive("path budget exceeded")
    return paths, stats
