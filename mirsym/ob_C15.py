"""C15: pool step contracts (see ob_pool.py) and the idle limit under schedules (see ob_sched.py)"""
import ob_pool
import ob_sched


def obligations(prog, src, tier, seed):
    obs = ob_pool.obligations(prog, src, tier, seed, "C15", select=['pool_push', 'pool_release_path'])
    obs += ob_sched.obligations(prog, src, tier, seed, "C15", classes=("C15",))
    return obs
