#!/usr/bin/env python3
"""mirsym runner:  python3-vt run.py <property id> <tier> <mir file> <src root> <out json>

Loads the obligations of one property (ob_<id>.py), symbolically executes the named hyperdriver
functions from the MIR dump, decides every obligation with z3 (cross-checked with cvc5 where cvc5
accepts the query) and writes a JSON list of results.
"""
import importlib
import json
import os
import subprocess
import sys
import tempfile
import time
import traceback

sys.path.insert(0, os.path.dirname(os.path.abspath(__file__)))
import z3  # noqa: E402

import models  # noqa: E402
from interp import Inconclusive, SourceInfo, explore  # noqa: E402
from mirparse import MirUnsupported, Program  # noqa: E402

FEATURES = ["client", "server", "stream", "incoming", "default", "tls", "sni"]


def cvc5_check(smt2, timeout_s=20):
    """returns 'sat' | 'unsat' | 'unknown' | 'n/a'"""
    with tempfile.NamedTemporaryFile("w", suffix=".smt2", delete=False) as fh:
        fh.write("(set-logic ALL)\n(set-option :strings-exp true)\n" + smt2 + "\n(check-sat)\n")
        p = fh.name
    try:
        r = subprocess.run(["cvc5", "--lang", "smt2", f"--tlimit={timeout_s * 1000}", p], capture_output=True, text=True, timeout=timeout_s + 5)
        out = (r.stdout + r.stderr).strip()
        if "(error" in out or "error" in out.lower().split("\n")[0:1]:
            return "n/a"
        first = out.split("\n")[0].strip() if out else ""
        if first in ("sat", "unsat", "unknown"):
            return first
        return "n/a"
    except Exception:
        return "n/a"
    finally:
        os.unlink(p)


def model_to_dict(m):
    out = {}
    for d in m.decls():
        v = m[d]
        try:
            if z3.is_string_value(v):
                out[d.name()] = v.as_string()
            elif z3.is_bv_value(v):
                out[d.name()] = v.as_long()
            elif z3.is_true(v) or z3.is_false(v):
                out[d.name()] = z3.is_true(v)
            else:
                out[d.name()] = str(v)
        except Exception:
            out[d.name()] = str(v)
    return out


def run_native(scn):
    """scenario dict -> dict of output lines (multi-valued keys joined by \\n)"""
    exe = os.environ.get("VERIF_NATIVE_REPLAY")
    if not exe:
        return None
    txt = "".join(f"{k}={v}\n" for k, v in scn.items())
    r = subprocess.run([exe], input=txt, capture_output=True, text=True, timeout=60)
    out = {}
    for l in r.stdout.splitlines():
        if "=" in l:
            k, v = l.split("=", 1)
            out[k] = v if k not in out else out[k] + "\n" + v
    if r.returncode != 0 and "result" not in out:
        out["result"] = "crash:" + r.stderr[-300:]
    return out


def native_replay(ob, res):
    """execute the counterexample through hyperdriver's public API and judge it with the
    obligation's concrete reference; sets res['replayed'] and res['replay_path']"""
    scn = res.get("cex_input")
    if not isinstance(scn, dict) or "family" not in scn or "judge" not in ob:
        return
    out = run_native(scn)
    d = os.environ.get("VERIF_REPLAY_DIR", "/tmp")
    os.makedirs(d, exist_ok=True)
    path = os.path.join(d, ob["name"] + ".scn")
    verdict = None
    if out is not None:
        verdict = ob["judge"](scn, out)  # True = native run violates the property too
    with open(path, "w") as fh:
        fh.write("# solver counterexample for " + ob["name"] + ": " + res.get("failed", "") + "\n")
        fh.write("# replay: /verif/check <ID> --replay " + path + "   (feeds this scenario to native/src/bin/replay)\n")
        for k, v in scn.items():
            fh.write(f"{k}={v}\n")
        fh.write("# native output:\n")
        for k, v in (out or {}).items():
            fh.write(f"#   {k}={v}\n")
        fh.write(f"# native run violates the property: {verdict}\n")
    res["replay_path"] = path
    res["replayed"] = bool(verdict)
    res["native_output"] = out


def decide(ob, prog, src, tier):
    """-> result dict"""
    t0 = time.time()
    res = {"name": ob["name"], "family": ob.get("family", ob["name"]), "engine": "mirsym(z3)", "funcs": ob.get("funcs", []), "bound": ob.get("bound", ""),
           "query": ob.get("doc", ""), "status": "inconclusive", "solver_s": 0.0, "paths": 0, "queries": 0, "nontrivial": ob.get("nontrivial", True)}
    try:
        budget = ob.get("budget_s", int(os.environ.get("VERIF_OBLIGATION_BUDGET_S", "1500" if tier == "quick" else "7200")))
        paths, stats = explore(prog, src, models.MODELS, ob["run"], max_paths=ob.get("max_paths", 3000), loop_bound=ob.get("loop_bound", 8), deadline=t0 + budget)
        res["paths"] = stats["paths"]
        res["queries"] = stats["queries"]
        if stats["paths"] == 0:
            res["reason"] = "vacuous: no feasible path"
            return res
        nq = 0
        witness_ok = False
        # panic paths first: they are cheap to decide and definitive
        paths = sorted(paths, key=lambda q: 0 if q.outcome == "panic" else 1)
        for p in paths:
            props = ob["check"](p)
            for label, prop in props:
                if label.startswith("witness:"):
                    # reachability witness: must be satisfiable on some path
                    s = z3.Solver()
                    s.set("timeout", 120000)
                    s.add(*p.pc)
                    s.add(prop)
                    if s.check() == z3.sat:
                        witness_ok = True
                    continue
                s = z3.Solver()
                s.set("timeout", 240000)
                s.add(*p.pc)
                s.add(z3.Not(prop) if not isinstance(prop, bool) else z3.BoolVal(not prop))
                ts = time.time()
                r = s.check()
                res["solver_s"] += time.time() - ts
                nq += 1
                if r == z3.unknown:
                    cv = cvc5_check(s.to_smt2().replace("(check-sat)", ""), 480)
                    if cv == "unsat":
                        r = z3.unsat
                    else:
                        res["status"] = "inconclusive"
                        res["reason"] = f"z3 unknown on `{label}` (cvc5: {cv})"
                        return res
                if r == z3.sat and getattr(p.ctx, "lazy_defs", None):
                    # the path used abstract predicates: add their definitions before believing the counterexample
                    s.add(*p.ctx.lazy_defs)
                    r = s.check()
                    nq += 1
                    if r == z3.unknown:
                        cv = cvc5_check(s.to_smt2().replace("(check-sat)", ""), 480)
                        if cv == "unsat":
                            r = z3.unsat
                        else:
                            res["status"] = "inconclusive"
                            res["reason"] = f"solver unknown when concretising a counterexample of `{label}` (cvc5: {cv})"
                            return res
                    if r == z3.unsat:
                        continue
                if r == z3.sat:
                    m = s.model()
                    res["status"] = "fail"
                    res["failed"] = label
                    res["cex"] = model_to_dict(m)
                    if "cex_extract" in ob:
                        try:
                            res["cex_input"] = ob["cex_extract"](p, m)
                            if isinstance(res["cex_input"], dict):
                                res["cex_input"]["claim"] = label
                            native_replay(ob, res)
                        except Exception as e:  # noqa
                            res["cex_input"] = {"error": repr(e) + traceback.format_exc()[-800:]}
                    res["trace"] = p.trace[-30:]
                    res["queries"] += nq
                    res["wall_s"] = time.time() - t0
                    return res
                # cross-check a sample of unsat answers with cvc5
                if ob.get("crosscheck", True) and nq <= 3:
                    cv = cvc5_check(s.to_smt2().replace("(check-sat)", ""))
                    res.setdefault("cvc5", []).append(cv)
                    if cv == "sat":
                        res["status"] = "inconclusive"
                        res["reason"] = f"z3 says unsat, cvc5 says sat on `{label}`"
                        return res
        res["queries"] += nq
        if ob.get("needs_witness", False) and not witness_ok:
            res["reason"] = "vacuous: reachability witness not satisfiable"
            return res
        res["status"] = "pass"
    except (Inconclusive, MirUnsupported) as e:
        res["status"] = "inconclusive"
        res["reason"] = f"{type(e).__name__}: {e}"
    except Exception as e:  # noqa
        res["status"] = "inconclusive"
        res["reason"] = "executor error: " + repr(e) + " " + traceback.format_exc()[-1800:]
    res["wall_s"] = time.time() - t0
    return res


def replay_main():
    """run.py --replay <pid> <scenario path> <mir> <src>: re-run a stored counterexample natively and judge it"""
    pid, path, mir, srcroot = sys.argv[2:6]
    name = os.path.basename(path)[:-4]
    scn = {}
    for l in open(path):
        if l.startswith("#") or "=" not in l:
            continue
        k, v = l.rstrip("\n").split("=", 1)
        scn[k] = v
    prog = Program(mir)
    src = SourceInfo(srcroot, FEATURES)
    mod = importlib.import_module("ob_" + pid)
    obs = [o for o in mod.obligations(prog, src, "thorough", 0) if o["name"] == name]
    out = run_native(scn)
    print("native output:", out)
    if not obs or "judge" not in obs[0] or out is None:
        print("cannot judge this scenario")
        sys.exit(2)
    v = obs[0]["judge"](scn, out)
    print("violates:", v)
    sys.exit(1 if v else 0)


_OBS, _ENV = [], None


def _worker_init():
    # a worker must not outlive a killed check (PR_SET_PDEATHSIG = 1, SIGKILL = 9)
    try:
        import ctypes
        ctypes.CDLL("libc.so.6", use_errno=True).prctl(1, 9, 0, 0, 0)
    except Exception:
        pass


def _decide_index(i):
    prog, src, tier = _ENV
    try:
        r = decide(_OBS[i], prog, src, tier)
    except Exception as e:  # a crashing worker must not look like a pass
        r = {"name": _OBS[i]["name"], "family": _OBS[i].get("family", ""), "engine": "mirsym(z3)", "funcs": _OBS[i].get("funcs", []), "bound": _OBS[i].get("bound", ""),
             "query": _OBS[i].get("doc", ""), "status": "inconclusive", "solver_s": 0.0, "paths": 0, "queries": 0, "reason": "executor error in worker: " + repr(e)[:300]}
    return json.dumps(r, default=str)


def main():
    if sys.argv[1] == "--replay":
        return replay_main()
    pid, tier, mir, srcroot, out = sys.argv[1:6]
    seed = int(os.environ.get("VERIF_SEED", "0") or 0)
    prog = Program(mir)
    src = SourceInfo(srcroot, FEATURES)
    mod = importlib.import_module("ob_" + pid)
    obs = mod.obligations(prog, src, tier, seed)
    results = []
    jobs = int(os.environ.get("VERIF_JOBS", "0") or 0) or min(12, os.cpu_count() or 1)
    if jobs > 1 and len(obs) > 1:
        # obligations are independent: decide them in forked workers (closures are inherited, results come back as JSON)
        import multiprocessing as mp
        global _OBS, _ENV
        _OBS, _ENV = obs, (prog, src, tier)
        with mp.get_context("fork").Pool(min(jobs, len(obs)), initializer=_worker_init) as pool:
            for txt in pool.imap(_decide_index, range(len(obs))):
                r = json.loads(txt)
                print(f"[mirsym] {r['name']}: {r['status']} paths={r['paths']} queries={r['queries']} {r.get('reason', r.get('failed', ''))}", flush=True)
                results.append(r)
    else:
        for ob in obs:
            r = decide(ob, prog, src, tier)
            print(f"[mirsym] {r['name']}: {r['status']} paths={r['paths']} queries={r['queries']} {r.get('reason', r.get('failed', ''))}", flush=True)
            results.append(r)
    used = sorted(models.DOC)
    json.dump({"results": results, "model_table": {k: models.DOC[k] for k in used}}, open(out, "w"), indent=1, default=str)


if __name__ == "__main__":
    main()
