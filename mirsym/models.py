"""Model table for library calls made by hyperdriver's MIR.

Each entry is a *contract-level* model of a function of `core`/`alloc`/`http`/`tracing`/...,
written from that crate's documentation and source (cited per entry).  The table is printed into
the evidence of every check that uses it, and it is validated differentially against the native
crates (native/tests/model_validation.rs) on concrete inputs.
"""
import re
import z3

from interp import (Agg, Cell, Ctx, Enum, FnItem, Inconclusive, Opaque, Panic, Ref, UNIT, err, is_z3, none, normalize_callee, ok, some,
                    strip_generics)

MODELS = {}
DOC = {}


def model(*keys, doc=""):
    def deco(f):
        for k in keys:
            MODELS[k] = f
            DOC[k] = doc or (f.__doc__ or "").strip().split("\n")[0]
        return f
    return deco


def deref(ctx, v):
    while isinstance(v, Ref):
        v = ctx.load(v)
    return v


def S(x):
    return z3.StringVal(x) if isinstance(x, str) else x


# ================================================================================================
# core: Option / Result / misc
# ================================================================================================
def call_closure(ctx: Ctx, clo, args):
    c = clo
    if isinstance(c, FnItem):
        return ctx.call(c.text, list(args))
    env = deref(ctx, c)
    if isinstance(env, FnItem):
        return ctx.call(env.text, list(args))
    if not (isinstance(env, Agg) and env.kind.startswith("closure:")):
        raise Inconclusive(f"call of non-closure {env!r}")
    ty = env.kind[len("closure:"):]
    f = ctx.prog.closures.get(ty)
    if f is None:
        raise Inconclusive("closure body not found for " + ty)
    a0ty = f.args[0][1]
    if a0ty.startswith("&"):
        first = Ref(Cell(env, "closure-env"))
    else:
        first = env
    return ctx.exec_fn(f, [first] + list(args))


def is_some(v):
    return isinstance(v, Enum) and v.ty == "Option" and v.variant == "Some"


def is_none_v(v):
    return isinstance(v, Enum) and v.ty == "Option" and v.variant == "None"


def need_opt(v):
    if not (isinstance(v, Enum) and v.ty == "Option"):
        raise Inconclusive(f"expected Option, got {v!r}")
    return v


def need_res(v):
    if not (isinstance(v, Enum) and v.ty == "Result"):
        raise Inconclusive(f"expected Result, got {v!r}")
    return v


@model("Option::map", doc="core: Some(x) => Some(f(x)), None => None")
def _opt_map(ctx, a, c):
    o = need_opt(a[0])
    return some(call_closure(ctx, a[1], [o.f[0]])) if is_some(o) else none()


@model("Option::and_then", doc="core: Some(x) => f(x), None => None")
def _opt_and_then(ctx, a, c):
    o = need_opt(a[0])
    return call_closure(ctx, a[1], [o.f[0]]) if is_some(o) else none()


@model("Option::filter", doc="core: Some(x) if p(&x) => Some(x) else None")
def _opt_filter(ctx, a, c):
    o = need_opt(a[0])
    if not is_some(o):
        return none()
    r = call_closure(ctx, a[1], [Ref(Cell(o.f[0], "filter-arg"))])
    return o if ctx.branch(r, "filter") else none()


def _structural_eq(ctx, x, y):
    x = deref(ctx, x) if isinstance(x, Ref) else x
    y = deref(ctx, y) if isinstance(y, Ref) else y
    if isinstance(x, Enum) and isinstance(y, Enum):
        if x.idx != y.idx or len(x.f) != len(y.f):
            return z3.BoolVal(False)
        return z3.And(*[_structural_eq(ctx, p_, q_) for p_, q_ in zip(x.f, y.f)]) if x.f else z3.BoolVal(True)
    if isinstance(x, Agg) and isinstance(y, Agg) and len(x.f) == len(y.f):
        return z3.And(*[_structural_eq(ctx, p_, q_) for p_, q_ in zip(x.f, y.f)]) if x.f else z3.BoolVal(True)
    if is_z3(x) and is_z3(y):
        return x == y
    if isinstance(x, AuthorityV) and isinstance(y, AuthorityV):
        # http::uri::Authority: PartialEq compares the whole text (userinfo, host, port) ASCII case-insensitively (authority.rs)
        # for the well-formed `[userinfo@]host[:port]` values of AuthorityV (no ':' in a host outside brackets, no '@' in host or
        # port) the texts are equal iff the components are: compared component-wise, which keeps the string constraints small
        parts = [lower_of(ctx, x.host) == lower_of(ctx, y.host), x.has_port == y.has_port, z3.Implies(z3.And(x.has_port, y.has_port), x.port_text == y.port_text)]
        ux = x.userinfo if x.userinfo is not None else z3.StringVal("")
        uy = y.userinfo if y.userinfo is not None else z3.StringVal("")
        if x.userinfo is not None or y.userinfo is not None:
            parts.append(lower_of(ctx, ux) == lower_of(ctx, uy))
        return z3.And(*parts)
    raise Inconclusive(f"structural equality of {x!r} and {y!r}")


@model("PartialEq::eq", doc="core: `#[derive(PartialEq)]` on one of the crate's own plain types (trait-level fallback when no hand-written impl is found): same variant and equal fields")
def _derived_eq(ctx, a, c):
    return z3.simplify(_structural_eq(ctx, a[0], a[1]))


@model("PartialEq::ne", doc="core: negation of the derived equality")
def _derived_ne(ctx, a, c):
    return z3.simplify(z3.Not(_structural_eq(ctx, a[0], a[1])))


@model("Option::map_or_else", doc="core: Some(x) => f(x), None => default()")
def _opt_map_or_else(ctx, a, c):
    o = need_opt(a[0])
    return call_closure(ctx, a[2], [o.f[0]]) if is_some(o) else call_closure(ctx, a[1], [])


@model("bool::then", doc="core: true => Some(f()), false => None")
def _bool_then(ctx, a, c):
    if ctx.branch(a[0], "then condition"):
        return some(call_closure(ctx, a[1], []))
    return none()


@model("Option::flatten", doc="core: Option<Option<T>> -> Option<T>")
def _opt_flatten(ctx, a, c):
    o = need_opt(a[0])
    return o.f[0] if is_some(o) else none()


@model("Option::xor", doc="core")
def _opt_xor(ctx, a, c):
    x, y = need_opt(a[0]), need_opt(a[1])
    if is_some(x) and not is_some(y):
        return x
    if is_some(y) and not is_some(x):
        return y
    return none()


@model("usize::clamp", "Ord::clamp", "<usize as Ord>::clamp", doc="core: panics if min > max (`assert!(min <= max)`), else the value clamped into [min, max]")
def _clamp(ctx, a, c):
    v, lo, hi = a
    if ctx.branch(z3.UGT(lo, hi), "clamp: min > max"):
        raise Panic("assertion failed: min <= max (Ord::clamp)")
    return z3.If(z3.ULT(v, lo), lo, z3.If(z3.UGT(v, hi), hi, v))


@model("Option::then_some", "bool::then_some", doc="core: true => Some(v), false => None")
def _then_some(ctx, a, c):
    if ctx.branch(a[0], "then_some condition"):
        return some(a[1])
    return none()


@model("Option::unwrap_or_default", doc="core: Some(x) => x, None => Default (false / 0)")
def _opt_unwrap_or_default(ctx, a, c):
    o = need_opt(a[0])
    if is_some(o):
        return o.f[0]
    if "<bool>" in c:
        return z3.BoolVal(False)
    raise Inconclusive("unwrap_or_default for " + c)


@model("Option::unwrap_or", doc="core")
def _opt_unwrap_or(ctx, a, c):
    o = need_opt(a[0])
    return o.f[0] if is_some(o) else a[1]


@model("Option::unwrap_or_else", doc="core")
def _opt_unwrap_or_else(ctx, a, c):
    o = need_opt(a[0])
    return o.f[0] if is_some(o) else call_closure(ctx, a[1], [])


@model("Option::map_or", doc="core")
def _opt_map_or(ctx, a, c):
    o = need_opt(a[0])
    return call_closure(ctx, a[2], [o.f[0]]) if is_some(o) else a[1]


@model("Option::is_none", doc="core")
def _opt_is_none(ctx, a, c):
    return z3.BoolVal(is_none_v(need_opt(deref(ctx, a[0]))))


@model("Option::is_some", doc="core")
def _opt_is_some(ctx, a, c):
    return z3.BoolVal(is_some(need_opt(deref(ctx, a[0]))))


@model("Option::is_some_and", doc="core")
def _opt_is_some_and(ctx, a, c):
    o = need_opt(a[0])
    return call_closure(ctx, a[1], [o.f[0]]) if is_some(o) else z3.BoolVal(False)


@model("Option::expect", doc="core: None => panic(msg)")
def _opt_expect(ctx, a, c):
    o = need_opt(a[0])
    if is_some(o):
        return o.f[0]
    raise Panic("Option::expect: " + str(a[1]))


@model("Option::unwrap", doc="core: None => panic")
def _opt_unwrap(ctx, a, c):
    o = need_opt(a[0])
    if is_some(o):
        return o.f[0]
    raise Panic("called `Option::unwrap()` on a `None` value")


@model("Option::as_ref", "Option::as_mut", "Option::as_deref", doc="core: &Option<T> -> Option<&T>")
def _opt_as_ref(ctx, a, c):
    r = a[0]
    o = need_opt(deref(ctx, r))
    if not is_some(o):
        return none()
    if isinstance(r, Ref):
        return some(Ref(r.cell, r.path + (("downcast", "Some"), ("field", 0))))
    return some(Ref(Cell(o.f[0], "as_ref")))


@model("Option::take", doc="core: mem::replace(self, None)")
def _opt_take(ctx, a, c):
    o = need_opt(deref(ctx, a[0]))
    ctx.store(a[0], none())
    return o


@model("Option::cloned", "Option::copied", doc="core: Option<&T> -> Option<T> via Clone")
def _opt_cloned(ctx, a, c):
    o = need_opt(a[0])
    if not is_some(o):
        return none()
    return some(clone_value(ctx, deref(ctx, o.f[0])))


@model("Option::ok_or", doc="core")
def _opt_ok_or(ctx, a, c):
    o = need_opt(a[0])
    return ok(o.f[0]) if is_some(o) else err(a[1])


@model("Option::ok_or_else", doc="core")
def _opt_ok_or_else(ctx, a, c):
    o = need_opt(a[0])
    return ok(o.f[0]) if is_some(o) else err(call_closure(ctx, a[1], []))


@model("Option::zip", doc="core")
def _opt_zip(ctx, a, c):
    o, p = need_opt(a[0]), need_opt(a[1])
    return some(Agg("tuple", [o.f[0], p.f[0]])) if is_some(o) and is_some(p) else none()


@model("Option::or", doc="core")
def _opt_or(ctx, a, c):
    o = need_opt(a[0])
    return o if is_some(o) else a[1]


@model("Option::or_else", doc="core")
def _opt_or_else(ctx, a, c):
    o = need_opt(a[0])
    return o if is_some(o) else call_closure(ctx, a[1], [])


@model("Result::ok", doc="core")
def _res_ok(ctx, a, c):
    r = need_res(a[0])
    return some(r.f[0]) if r.variant == "Ok" else none()


@model("Result::is_err", doc="core")
def _res_is_err(ctx, a, c):
    return z3.BoolVal(need_res(deref(ctx, a[0])).variant == "Err")


@model("Result::is_ok", doc="core")
def _res_is_ok(ctx, a, c):
    return z3.BoolVal(need_res(deref(ctx, a[0])).variant == "Ok")


@model("Result::map_err", doc="core")
def _res_map_err(ctx, a, c):
    r = need_res(a[0])
    return r if r.variant == "Ok" else err(call_closure(ctx, a[1], [r.f[0]]))


@model("Result::map", doc="core")
def _res_map(ctx, a, c):
    r = need_res(a[0])
    return ok(call_closure(ctx, a[1], [r.f[0]])) if r.variant == "Ok" else r


@model("Box::pin", "Box::new", doc="alloc: boxing preserves the value")
def _box_identity(ctx, a, c):
    return a[0]


@model("Result::map_or", doc="core: Ok(x) => f(x), Err(_) => default")
def _result_map_or(ctx, a, c):
    r = a[0]
    return call_closure(ctx, a[2], [r.f[0]]) if r.variant == "Ok" else a[1]


@model("Result::map_or_else", doc="core: Ok(x) => f(x), Err(e) => default(e)")
def _result_map_or_else(ctx, a, c):
    r = a[0]
    return call_closure(ctx, a[2], [r.f[0]]) if r.variant == "Ok" else call_closure(ctx, a[1], [r.f[0]])


@model("Result::is_ok_and", doc="core")
def _result_is_ok_and(ctx, a, c):
    r = a[0]
    return call_closure(ctx, a[1], [r.f[0]]) if r.variant == "Ok" else z3.BoolVal(False)


@model("Result::err", doc="core")
def _result_err(ctx, a, c):
    r = a[0]
    return some(r.f[0]) if r.variant == "Err" else none()


@model("Result::unwrap_or_else", doc="core: Ok(x) => x, Err(e) => f(e)")
def _result_unwrap_or_else(ctx, a, c):
    r = a[0]
    return r.f[0] if r.variant == "Ok" else call_closure(ctx, a[1], [r.f[0]])


@model("Result::unwrap_or", doc="core")
def _result_unwrap_or(ctx, a, c):
    r = a[0]
    return r.f[0] if r.variant == "Ok" else a[1]


@model("Result::and_then", doc="core: Ok(x) => f(x), Err(e) => Err(e)")
def _result_and_then(ctx, a, c):
    r = a[0]
    return call_closure(ctx, a[1], [r.f[0]]) if r.variant == "Ok" else r


@model("Result::expect", doc="core: Err => panic(msg)")
def _res_expect(ctx, a, c):
    r = need_res(a[0])
    if r.variant == "Ok":
        return r.f[0]
    raise Panic("Result::expect: " + str(a[1]))


@model("Result::unwrap", doc="core: Err => panic")
def _res_unwrap(ctx, a, c):
    r = need_res(a[0])
    if r.variant == "Ok":
        return r.f[0]
    raise Panic("called `Result::unwrap()` on an `Err` value")


@model("<Result as Try>::branch", doc="core: Ok(v) => Continue(v), Err(e) => Break(Err(e))")
def _res_branch(ctx, a, c):
    r = need_res(a[0])
    if r.variant == "Ok":
        return Enum("ControlFlow", "Continue", 0, [r.f[0]])
    return Enum("ControlFlow", "Break", 1, [err(r.f[0])])


@model("<Option as Try>::branch", doc="core")
def _opt_branch(ctx, a, c):
    o = need_opt(a[0])
    if is_some(o):
        return Enum("ControlFlow", "Continue", 0, [o.f[0]])
    return Enum("ControlFlow", "Break", 1, [none()])


@model("<Result as FromResidual>::from_residual", doc="core: Err(e) => Err(From::from(e))")
def _res_from_residual(ctx, a, c):
    r = need_res(a[0])
    return err(convert_error(ctx, r.f[0], c))


@model("<Option as FromResidual>::from_residual", doc="core")
def _opt_from_residual(ctx, a, c):
    return none()


def convert_error(ctx, e, c):
    return e


@model("<Poll as Try>::branch", doc="core: Poll<Result<T,E>>: Ready(Ok(v)) => Continue(Ready(v)), Ready(Err(e)) => Break(Err(e)), Pending => Continue(Pending)")
def _poll_branch(ctx, a, c):
    p = a[0]
    if not (isinstance(p, Enum) and p.ty == "Poll"):
        raise Inconclusive("Poll::branch on " + repr(p))
    if p.variant == "Pending":
        return Enum("ControlFlow", "Continue", 0, [p])
    r = need_res(p.f[0])
    if r.variant == "Ok":
        return Enum("ControlFlow", "Continue", 0, [Enum("Poll", "Ready", 0, [r.f[0]])])
    return Enum("ControlFlow", "Break", 1, [err(r.f[0])])


@model("<Poll as FromResidual>::from_residual", doc="core: Err(e) => Ready(Err(e.into()))")
def _poll_from_residual(ctx, a, c):
    r = need_res(a[0])
    if re.search(r"Poll<(?:std::option::)?Option<", c):
        return Enum("Poll", "Ready", 0, [some(err(r.f[0]))])
    return Enum("Poll", "Ready", 0, [err(r.f[0])])


@model("must_use", "std::hint::must_use", "hint::must_use", "convert::identity", doc="core: identity")
def _identity(ctx, a, c):
    return a[0]


@model("mem::drop", "std::mem::drop", doc="core: drop the value")
def _drop(ctx, a, c):
    ctx.drop_value(a[0])
    return UNIT


@model("mem::replace", doc="core")
def _mem_replace(ctx, a, c):
    old = ctx.load(a[0])
    ctx.store(a[0], a[1])
    return old


@model("mem::take", doc="core")
def _mem_take(ctx, a, c):
    raise Inconclusive("mem::take")


@model("panicking::panic", "core::panicking::panic", "panic", doc="core: panic!")
def _panic(ctx, a, c):
    raise Panic("panic: " + str(a[0]) if a else "panic")


@model("panicking::panic_fmt", "panic_fmt", "panicking::unreachable_display", "panicking::panic_display", "panicking::assert_failed", "assert_failed",
       "panicking::panic_explicit", "begin_panic", doc="core: panic!")
def _panic_fmt(ctx, a, c):
    raise Panic("panic_fmt: " + (display_concrete(ctx, a[0]) if a else ""))


@model("<bool as Not>::not", "<&bool as Not>::not", doc="core")
def _bool_not(ctx, a, c):
    return z3.Not(a[0] if is_z3(a[0]) else deref(ctx, a[0]))


# ---- clone ------------------------------------------------------------------------------------
def clone_value(ctx, v):
    if is_z3(v):
        return v
    if hasattr(v, "clone_model"):
        return v.clone_model(ctx)
    if isinstance(v, Agg):
        return Agg(v.kind, [clone_value(ctx, x) if x is not None else None for x in v.f])
    if isinstance(v, Enum):
        return Enum(v.ty, v.variant, v.idx, [clone_value(ctx, x) for x in v.f])
    if isinstance(v, Ref):
        return v
    if isinstance(v, (Opaque, FnItem)):
        return v
    raise Inconclusive(f"clone of {v!r}")


@model("Clone::clone", doc="core: structural clone of the modelled value")
def _clone(ctx, a, c):
    return clone_value(ctx, deref(ctx, a[0]))


# ================================================================================================
# strings and formatting
# ================================================================================================
def as_str(ctx, v):
    v = deref(ctx, v)
    if is_z3(v) and v.sort() == z3.StringSort():
        return v
    if hasattr(v, "as_str_model"):
        return v.as_str_model(ctx)
    raise Inconclusive(f"expected a string, got {v!r}")


@model("<str as PartialEq>::eq", "<String as PartialEq>::eq", "<&str as PartialEq>::eq", "<String as PartialEq<str>>::eq", doc="core: byte-wise string equality")
def _str_eq(ctx, a, c):
    return as_str(ctx, a[0]) == as_str(ctx, a[1])


@model("<str as PartialEq>::ne", "<String as PartialEq>::ne", doc="core")
def _str_ne(ctx, a, c):
    return as_str(ctx, a[0]) != as_str(ctx, a[1])


@model("<String as Deref>::deref", "String::as_str", "<String as AsRef>::as_ref", "<String as Borrow>::borrow", "<str as ToOwned>::to_owned", "<str as ToString>::to_string",
       "<String as From>::from", "<&str as Into>::into", "<Box as From>::from", "str::to_string", "str::to_owned", "<String as Clone>::clone", "String::into_boxed_str",
       "<&str as ToString>::to_string", "<String as ToString>::to_string",
       doc="alloc: String/&str/Box<str> conversions preserve the text")
def _str_id(ctx, a, c):
    return as_str(ctx, a[0])


@model("str::trim_start_matches", doc="core: strip every leading occurrence of the (char) pattern")
def _trim_start(ctx, a, c):
    s = as_str(ctx, a[0])
    ch = z3.simplify(a[1])
    if not z3.is_bv_value(ch):
        raise Inconclusive("trim pattern")
    known = getattr(ctx, "trim_registry", {}).get((s.get_id(), "start", chr(ch.as_long())))
    if known is not None:
        return known
    cs = z3.StringVal(chr(ch.as_long()))
    # bounded: strip up to 4 leading occurrences, assume no more (checked)
    r = s
    for _ in range(4):
        r = z3.If(z3.PrefixOf(cs, r), z3.SubString(r, 1, z3.Length(r) - 1), r)
    ctx.assume(z3.Not(z3.PrefixOf(cs, r)))
    return r


@model("str::trim_end_matches", doc="core: strip every trailing occurrence of the (char) pattern")
def _trim_end(ctx, a, c):
    s = as_str(ctx, a[0])
    ch = z3.simplify(a[1])
    known = getattr(ctx, "trim_registry", {}).get((s.get_id(), "end", chr(ch.as_long())))
    if known is not None:
        return known
    cs = z3.StringVal(chr(ch.as_long()))
    r = s
    for _ in range(4):
        r = z3.If(z3.SuffixOf(cs, r), z3.SubString(r, 0, z3.Length(r) - 1), r)
    ctx.assume(z3.Not(z3.SuffixOf(cs, r)))
    return r


@model("str::is_empty", "String::is_empty", doc="core")
def _str_is_empty(ctx, a, c):
    return z3.Length(as_str(ctx, a[0])) == 0


def lower_of(ctx, s):
    """abstract lower-casing for registered strings (see inputs.sym_authority), else the definition"""
    known = getattr(ctx, "lower_registry", {}).get(s.get_id())
    return known if known is not None else lower(s)


@model("str::to_ascii_lowercase", "str::to_lowercase", doc="core: ASCII lower-cased copy (inputs are ASCII)")
def _to_ascii_lowercase(ctx, a, c):
    return lower_of(ctx, as_str(ctx, a[0]))


@model("<String as PartialEq<&str>>::ne", "<String as PartialEq<str>>::ne", doc="core")
def _string_ne_str(ctx, a, c):
    return as_str(ctx, a[0]) != as_str(ctx, a[1])


@model("<String as PartialEq<&str>>::eq", doc="core")
def _string_eq_str(ctx, a, c):
    return as_str(ctx, a[0]) == as_str(ctx, a[1])


@model("str::eq_ignore_ascii_case", doc="core: ASCII case-insensitive equality")
def _eq_ignore_case(ctx, a, c):
    return lower_of(ctx, as_str(ctx, a[0])) == lower_of(ctx, as_str(ctx, a[1]))


@model("<{closure} as Fn>::call", "<{closure} as FnMut>::call_mut", "<{closure} as FnOnce>::call_once", "Fn::call", "FnMut::call_mut", "FnOnce::call_once",
       doc="core: calling a closure value with a tuple of arguments")
def _fn_call(ctx, a, c):
    args = a[1].f if isinstance(a[1], Agg) else [a[1]]
    clo = a[0]
    tgt = clo
    hops = 0
    while isinstance(tgt, Ref) and hops < 4:
        tgt = ctx.load(tgt)
        hops += 1
    if tgt is None:
        # a capture-less closure is a zero-sized value that MIR never assigns: its type is in the callee
        m = re.match(r"<(?:&(?:mut )?)*(\{closure@[^}]*\}) as ", c.strip())
        if m:
            clo = Agg("closure:" + m.group(1), [])
    return call_closure(ctx, clo, args)


MAXLEN = 12


def lower(s, n=MAXLEN):
    """ASCII lower-casing of a string of length <= n (callers bound the length)."""
    out = z3.StringVal("")
    for i in range(n):
        ch = z3.SubString(s, i, 1)
        code = z3.StrToCode(ch)
        lo = z3.If(z3.And(code >= 65, code <= 90), z3.StrFromCode(code + 32), ch)
        out = z3.Concat(out, z3.If(z3.Length(s) > i, lo, z3.StringVal("")))
    return out


class FmtArg:
    def __init__(self, kind, v):
        self.kind = kind
        self.v = v


class FmtArguments:
    def __init__(self, pieces, args):
        self.pieces = pieces  # list of ('lit', str) | ('arg', index)
        self.args = args


@model("Argument::new_display", "rt::Argument::new_display", doc="core::fmt: argument formatted with Display")
def _arg_display(ctx, a, c):
    return FmtArg("display", a[0])


@model("Argument::new_debug", "rt::Argument::new_debug", doc="core::fmt: argument formatted with Debug")
def _arg_debug(ctx, a, c):
    return FmtArg("debug", a[0])


@model("Arguments::new", doc="core::fmt (rustc 1.9x lowering): template bytes: 0xC0 = next argument with default spec, n in 1..=0x7f = literal of n bytes, 0 = end")
def _arguments_new(ctx, a, c):
    tmpl = deref(ctx, a[0])
    args = deref(ctx, a[1])
    if not (isinstance(tmpl, Agg) and tmpl.kind == "bytes"):
        raise Inconclusive("format template " + repr(tmpl))
    b = tmpl.f
    pieces = []
    i = 0
    nxt = 0
    while i < len(b):
        x = b[i]
        if x == 0:
            break
        if x == 0xC0:
            pieces.append(("arg", nxt))
            nxt += 1
            i += 1
        elif 1 <= x <= 0x7F:
            pieces.append(("lit", bytes(b[i + 1:i + 1 + x]).decode("utf-8", "replace")))
            i += 1 + x
        else:
            raise Inconclusive(f"format template opcode {x:#x}")
    return FmtArguments(pieces, args.f if isinstance(args, Agg) else [])


@model("Arguments::from_str", "Arguments::new_const", "Arguments::from_str_nonconst", doc="core::fmt: literal-only format string")
def _arguments_const(ctx, a, c):
    s = deref(ctx, a[0])
    if isinstance(s, Agg):
        s = s.f[0]
    return FmtArguments([("sym", s)], [])


def display(ctx, v):
    v = deref(ctx, v)
    if is_z3(v):
        if v.sort() == z3.StringSort():
            return v
        if z3.is_bv(v):
            return z3.IntToStr(z3.BV2Int(v))
    if hasattr(v, "display_model"):
        return v.display_model(ctx)
    raise Inconclusive(f"Display of {v!r}")


def display_concrete(ctx, v):
    try:
        v = deref(ctx, v)
        if isinstance(v, FmtArguments):
            return str(format_args(ctx, v))
        return str(v)
    except Exception:
        return "?"


def format_args(ctx, fa):
    out = z3.StringVal("")
    for p in fa.pieces:
        if p[0] == "lit":
            out = z3.Concat(out, z3.StringVal(p[1]))
        elif p[0] == "sym":
            out = z3.Concat(out, p[1])
        else:
            arg = fa.args[p[1]]
            if not isinstance(arg, FmtArg):
                raise Inconclusive("format argument " + repr(arg))
            if arg.kind != "display":
                raise Inconclusive("Debug formatting is not modelled")
            out = z3.Concat(out, display(ctx, arg.v))
    return z3.simplify(out)


@model("format", "fmt::format", "alloc::fmt::format", doc="alloc::fmt::format: concatenation of literal pieces and Display of the arguments")
def _format(ctx, a, c):
    fa = a[0]
    if not isinstance(fa, FmtArguments):
        raise Inconclusive("format() of " + repr(fa))
    return format_args(ctx, fa)


@model("<T as ToString>::to_string", "ToString::to_string", doc="alloc: Display into a String")
def _to_string(ctx, a, c):
    return display(ctx, a[0])


# ================================================================================================
# tracing (disabled: no subscriber, level filter OFF)
# ================================================================================================
@model("LevelFilter::current", doc="tracing: no subscriber installed => LevelFilter::OFF")
def _lf_current(ctx, a, c):
    return Opaque("LevelFilter::OFF")


@model("<Level as PartialOrd>::le", doc="tracing: `level <= filter`: false against the runtime OFF filter (no subscriber); true against STATIC_MAX_LEVEL, which is TRACE because no tracing max_level_* feature is enabled")
def _level_le(ctx, a, c):
    b = deref(ctx, a[1])
    if isinstance(b, Opaque) and b.what == "LevelFilter::OFF":
        return z3.BoolVal(False)
    return z3.BoolVal(True)


@model("DefaultCallsite::interest", doc="tracing: Interest::never() without a subscriber")
def _cs_interest(ctx, a, c):
    return Opaque("Interest::never")


@model("Interest::is_never", doc="tracing")
def _is_never(ctx, a, c):
    return z3.BoolVal(True)


@model("Interest::is_always", doc="tracing")
def _is_always(ctx, a, c):
    return z3.BoolVal(False)


@model("Span::current", "Span::none", doc="tracing: disabled span")
def _span_current(ctx, a, c):
    return Opaque("Span::none")


@model("Span::record", doc="tracing: no-op on a disabled span")
def _span_record(ctx, a, c):
    return a[0]


@model("Span::enter", "Span::entered", "Span::clone", "<Span as Clone>::clone", "Span::in_scope", doc="tracing: disabled span")
def _span_misc(ctx, a, c):
    return Opaque("SpanGuard")


@model("__macro_support::__is_enabled", doc="tracing: never enabled without a subscriber")
def _is_enabled(ctx, a, c):
    return z3.BoolVal(False)


# ================================================================================================
# http::Uri and friends  (http 1.3.1: src/uri/{mod,authority,path,scheme,port}.rs)
# ================================================================================================
class PortV:
    """http::uri::Port<&str>: numeric value + the text it was parsed from"""

    def __init__(self, num, repr_):
        self.num = num
        self.repr = repr_

    def display_model(self, ctx):
        return self.repr

    def clone_model(self, ctx):
        return self


class AuthorityV:
    """http::uri::Authority restricted to well-formed `host[:port]` (no userinfo):
    host is a reg-name / IPv4 literal, or a bracketed IPv6 literal (brackets are part of host(),
    authority.rs `fn host`); port() = text after the last ':' parsed as u16 (authority.rs `port`)."""

    def __init__(self, host, has_port, port, port_text=None, inner=None, bracketed=None):
        self.inner = inner if inner is not None else host  # host without IPv6 brackets
        self.bracketed = bracketed if bracketed is not None else z3.BoolVal(False)
        self.host = host  # z3 String, includes brackets for IPv6
        self.has_port = has_port  # z3 Bool
        self.port = port  # z3 BitVec 16
        self.port_text = port_text if port_text is not None else z3.IntToStr(z3.BV2Int(port))

    userinfo = None  # z3 String ("" = none) when the input builder enables it

    def as_str_model(self, ctx):
        if getattr(self, "_text", None) is None:
            hp = z3.If(self.has_port, z3.Concat(self.host, z3.StringVal(":"), self.port_text), self.host)
            self._hp = hp
            if self.userinfo is not None:
                hp = z3.If(self.userinfo == z3.StringVal(""), hp, z3.Concat(self.userinfo, z3.StringVal("@"), hp))
            self._text = hp
        if ctx is not None:
            if not hasattr(ctx, "parse_registry"):
                ctx.parse_registry = {}
            ctx.parse_registry[self._text.get_id()] = self
        return self._text

    def display_model(self, ctx):
        return self.as_str_model(ctx)

    def clone_model(self, ctx):
        return self


class SchemeV:
    """http::uri::Scheme: text as returned by as_str(); equality is ASCII case-insensitive (scheme.rs PartialEq)"""

    def __init__(self, text):
        self.text = text

    def as_str_model(self, ctx):
        return self.text

    def display_model(self, ctx):
        return self.text

    def clone_model(self, ctx):
        return self


class PathAndQueryV:
    """http::uri::PathAndQuery: raw data (may be empty: as_str() then yields "/", path.rs as_str)"""

    def __init__(self, data):
        self.data = data

    def as_str_model(self, ctx):
        return z3.If(z3.Length(self.data) == 0, z3.StringVal("/"), self.data)

    def display_model(self, ctx):
        return self.as_str_model(ctx)

    def clone_model(self, ctx):
        return self


class UriV:
    """http::Uri = (scheme?, authority?, path_and_query data). Accessors follow uri/mod.rs."""

    def __init__(self, has_scheme, scheme, has_auth, auth: AuthorityV, pq):
        self.has_scheme = has_scheme
        self.scheme = scheme  # z3 String
        self.has_auth = has_auth
        self.auth = auth
        self.pq = pq  # z3 String (raw data)

    def clone_model(self, ctx):
        return UriV(self.has_scheme, self.scheme, self.has_auth, self.auth, self.pq)

    def display_model(self, ctx):
        # <Uri as Display>: scheme://authority path (only used in log fields)
        raise Inconclusive("Display for Uri")


def uri_of(ctx, v):
    u = deref(ctx, v)
    if not isinstance(u, UriV):
        raise Inconclusive(f"expected Uri, got {u!r}")
    return u


@model("Uri::scheme_str", doc="http uri/mod.rs:501: None if no scheme else Some(scheme.as_str())")
def _uri_scheme_str(ctx, a, c):
    u = uri_of(ctx, a[0])
    return some(u.scheme) if ctx.branch(u.has_scheme, "has_scheme") else none()


@model("Uri::scheme", doc="http uri/mod.rs:482")
def _uri_scheme(ctx, a, c):
    u = uri_of(ctx, a[0])
    return some(Ref(Cell(SchemeV(u.scheme), "scheme"))) if ctx.branch(u.has_scheme, "has_scheme") else none()


@model("Uri::authority", doc="http uri/mod.rs:547: None if the authority is empty")
def _uri_authority(ctx, a, c):
    u = uri_of(ctx, a[0])
    return some(Ref(Cell(u.auth, "authority"))) if ctx.branch(u.has_auth, "has_authority") else none()


@model("Uri::host", doc="http uri/mod.rs:589: authority().map(|a| a.host())")
def _uri_host(ctx, a, c):
    u = uri_of(ctx, a[0])
    return some(u.auth.host) if ctx.branch(u.has_auth, "has_authority") else none()


@model("Uri::port", doc="http uri/mod.rs:636: authority().and_then(|a| a.port())")
def _uri_port(ctx, a, c):
    u = uri_of(ctx, a[0])
    if ctx.branch(z3.And(u.has_auth, u.auth.has_port), "has_port"):
        return some(PortV(u.auth.port, u.auth.port_text))
    return none()


@model("Uri::port_u16", doc="http uri/mod.rs:651")
def _uri_port_u16(ctx, a, c):
    u = uri_of(ctx, a[0])
    if ctx.branch(z3.And(u.has_auth, u.auth.has_port), "has_port"):
        return some(u.auth.port)
    return none()


@model("Uri::path_and_query", doc="http uri/mod.rs:395: Some iff a scheme is present or the authority is empty")
def _uri_pq(ctx, a, c):
    u = uri_of(ctx, a[0])
    if ctx.branch(z3.Or(u.has_scheme, z3.Not(u.has_auth)), "has_path_and_query"):
        return some(Ref(Cell(PathAndQueryV(u.pq), "pq")))
    return none()


@model("Authority::port_u16", doc="http uri/authority.rs: the port as a number, if any")
def _auth_port_u16(ctx, a, c):
    au = deref(ctx, a[0])
    if ctx.branch(au.has_port, "has_port"):
        return some(au.port)
    return none()


@model("Authority::port", doc="http uri/authority.rs: the port, if any")
def _auth_port(ctx, a, c):
    au = deref(ctx, a[0])
    if ctx.branch(au.has_port, "has_port"):
        return some(PortV(au.port, au.port_text))
    return none()


@model("Port::as_u16", doc="http uri/port.rs")
def _port_as_u16(ctx, a, c):
    return deref(ctx, a[0]).num


@model("Authority::host", doc="http uri/authority.rs:199/487")
def _auth_host(ctx, a, c):
    return deref(ctx, a[0]).host


@model("Authority::as_str", "PathAndQuery::as_str", "Scheme::as_str", doc="http: text of the component (PathAndQuery: \"/\" when empty)")
def _as_str(ctx, a, c):
    return as_str(ctx, a[0])


@model("PathAndQuery::path", doc="http uri/path.rs: the data up to the first '?'; \"/\" when that is empty")
def _pq_path(ctx, a, c):
    d = deref(ctx, a[0]).data
    q = z3.IndexOf(d, z3.StringVal("?"), 0)
    p = z3.If(q < 0, d, z3.SubString(d, 0, q))
    return z3.If(z3.Length(p) == 0, z3.StringVal("/"), p)


@model("PathAndQuery::query", doc="http uri/path.rs: the data after the first '?', None without one")
def _pq_query(ctx, a, c):
    d = deref(ctx, a[0]).data
    q = z3.IndexOf(d, z3.StringVal("?"), 0)
    if ctx.branch(q < 0, "path_and_query has no query"):
        return none()
    return some(z3.SubString(d, q + 1, z3.Length(d) - q - 1))


@model("<Scheme as PartialEq>::eq", doc="http uri/scheme.rs: ASCII case-insensitive comparison")
def _scheme_eq(ctx, a, c):
    x = deref(ctx, a[0])
    y = deref(ctx, a[1])
    return lower(as_str(ctx, x)) == lower(as_str(ctx, y))


@model("<Option as PartialEq>::eq", doc="core: Option equality (payloads compared by their own PartialEq)")
def _opt_eq(ctx, a, c):
    x = deref(ctx, a[0])
    y = deref(ctx, a[1])
    if is_none_v(x) or is_none_v(y):
        return z3.BoolVal(is_none_v(x) and is_none_v(y))
    px, py = deref(ctx, x.f[0]), deref(ctx, y.f[0])
    if isinstance(px, SchemeV) or isinstance(py, SchemeV):
        return lower(as_str(ctx, px)) == lower(as_str(ctx, py))
    if is_z3(px) and is_z3(py):
        return px == py
    if isinstance(px, (Enum, Agg)) and isinstance(py, (Enum, Agg)):
        # payloads with a derived PartialEq (plain enums / structs of the crate)
        return z3.simplify(_structural_eq(ctx, px, py))
    raise Inconclusive(f"Option equality on {px!r}")


@model("const:Scheme::HTTPS", doc="http: Scheme::HTTPS")
def _c_https(ctx):
    return SchemeV(z3.StringVal("https"))


@model("const:Scheme::HTTP", doc="http: Scheme::HTTP")
def _c_http(ctx):
    return SchemeV(z3.StringVal("http"))


@model("<Uri as Default>::default", "Uri::default", doc="http uri/mod.rs: Uri::default() is \"/\"")
def _uri_default(ctx, a, c):
    return UriV(z3.BoolVal(False), z3.StringVal(""), z3.BoolVal(False), AuthorityV(z3.StringVal(""), z3.BoolVal(False), z3.BitVecVal(0, 16)), z3.StringVal("/"))


class UriPartsV:
    def __init__(self):
        self.scheme = none()
        self.authority = none()
        self.pq = none()

    def mir_field(self, k):
        return [self.scheme, self.authority, self.pq][k]

    def mir_set_field(self, k, v):
        n = UriPartsV()
        n.scheme, n.authority, n.pq = self.scheme, self.authority, self.pq
        if k == 0:
            n.scheme = v
        elif k == 1:
            n.authority = v
        elif k == 2:
            n.pq = v
        else:
            raise Inconclusive("uri::Parts field " + str(k))
        return n


@model("<Parts as Default>::default", "<http::uri::Parts as Default>::default", doc="http uri/mod.rs: Parts { scheme: None, authority: None, path_and_query: None }")
def _parts_default(ctx, a, c):
    if "request" in c:
        raise Inconclusive("request::Parts::default")
    return UriPartsV()


@model("Uri::from_parts", doc="http uri/mod.rs:239: scheme needs authority and path; authority+path without scheme is an error")
def _uri_from_parts(ctx, a, c):
    p = a[0]
    if not isinstance(p, UriPartsV):
        raise Inconclusive("from_parts of " + repr(p))
    hs, ha, hp = is_some(p.scheme), is_some(p.authority), is_some(p.pq)
    if hs:
        if not ha:
            return err(Opaque("InvalidUriParts::AuthorityMissing"))
        if not hp:
            return err(Opaque("InvalidUriParts::PathAndQueryMissing"))
    elif ha and hp:
        return err(Opaque("InvalidUriParts::SchemeMissing"))
    sch = deref(ctx, p.scheme.f[0]).text if hs else z3.StringVal("")
    auth = deref(ctx, p.authority.f[0]) if ha else AuthorityV(z3.StringVal(""), z3.BoolVal(False), z3.BitVecVal(0, 16))
    pq = deref(ctx, p.pq.f[0]).data if hp else z3.StringVal("")
    return ok(UriV(z3.BoolVal(hs), sch, z3.BoolVal(ha), auth, pq))


@model("<Uri as PartialEq<str>>::eq", "<Uri as PartialEq<&str>>::eq", "<Uri as PartialEq>::eq", doc="http uri/mod.rs PartialEq<str>: compares the textual form")
def _uri_eq_str(ctx, a, c):
    u = uri_of(ctx, a[0])
    other = deref(ctx, a[1])
    if isinstance(other, UriV):
        raise Inconclusive("Uri == Uri")
    return uri_text(ctx, u) == as_str(ctx, other)


def uri_text(ctx, u):
    auth = u.auth.as_str_model(ctx)
    path = z3.If(z3.Or(u.has_scheme, z3.Length(u.pq) > 0), z3.If(z3.Length(u.pq) == 0, z3.StringVal("/"), u.pq), z3.StringVal(""))
    return z3.Concat(z3.If(u.has_scheme, z3.Concat(u.scheme, z3.StringVal("://")), z3.StringVal("")), z3.If(u.has_auth, auth, z3.StringVal("")), path)


# ================================================================================================
# http::Request / HeaderMap / HeaderValue / Version / Method
# ================================================================================================
VERSIONS = {"HTTP_09": 0, "HTTP_10": 1, "HTTP_11": 2, "HTTP_2": 3, "HTTP_3": 4}
for _n, _i in VERSIONS.items():
    def _mk(i):
        return lambda ctx: z3.BitVecVal(i, 8)
    MODELS["const:Version::" + _n] = _mk(_i)
    DOC["const:Version::" + _n] = "http::Version constants ordered 0.9 < 1.0 < 1.1 < 2 < 3 (version.rs derives PartialOrd on the inner enum)"

METHODS = ["OPTIONS", "GET", "POST", "PUT", "DELETE", "HEAD", "TRACE", "CONNECT", "PATCH"]
for _i, _n in enumerate(METHODS):
    def _mk2(i):
        return lambda ctx: z3.BitVecVal(i, 8)
    MODELS["const:Method::" + _n] = _mk2(_i)
    DOC["const:Method::" + _n] = "http::Method standard constants (an extension method is any other value)"


@model("<Version as PartialOrd>::lt", doc="http version.rs")
def _v_lt(ctx, a, c):
    return z3.ULT(deref(ctx, a[0]), deref(ctx, a[1]))


@model("<Version as PartialOrd>::ge", doc="http version.rs")
def _v_ge(ctx, a, c):
    return z3.UGE(deref(ctx, a[0]), deref(ctx, a[1]))


@model("<Version as PartialOrd>::le", doc="http version.rs")
def _v_le(ctx, a, c):
    return z3.ULE(deref(ctx, a[0]), deref(ctx, a[1]))


@model("<Version as PartialOrd>::gt", doc="http version.rs")
def _v_gt(ctx, a, c):
    return z3.UGT(deref(ctx, a[0]), deref(ctx, a[1]))


@model("<Version as PartialEq>::eq", "<Method as PartialEq>::eq", "<&Method as PartialEq<Method>>::eq", "<Method as PartialEq<&Method>>::eq", doc="http: equality of versions / methods")
def _v_eq(ctx, a, c):
    return deref(ctx, a[0]) == deref(ctx, a[1])


@model("<Version as PartialEq>::ne", "<Method as PartialEq>::ne", doc="http")
def _v_ne(ctx, a, c):
    return deref(ctx, a[0]) != deref(ctx, a[1])


class HeaderValueV:
    def __init__(self, text):
        self.text = text

    def clone_model(self, ctx):
        return self

    def as_str_model(self, ctx):
        return self.text


class HeaderMapV:
    """http::HeaderMap restricted to the header names the code under test mentions: name -> Cell(HeaderValueV | None)"""

    def __init__(self):
        self.h = {}
        self.removed = []

    def cell(self, name):
        if name not in self.h:
            self.h[name] = Cell(None, "hdr:" + name)
        return self.h[name]


def header_name(ctx, v):
    v = deref(ctx, v)
    if isinstance(v, Opaque):
        m = re.search(r"header::([A-Z_]+)", v.what)
        if m:
            return m.group(1).lower().replace("_", "-")
    if isinstance(v, HeaderNameV):
        return v.name
    raise Inconclusive(f"header name {v!r}")


class HeaderNameV:
    def __init__(self, name):
        self.name = name


for _h in ["HOST", "CONNECTION", "TRANSFER_ENCODING", "UPGRADE", "CONTENT_LENGTH"]:
    def _mk3(n):
        return lambda ctx: HeaderNameV(n.lower().replace("_", "-"))
    MODELS["const:header::" + _h] = _mk3(_h)
    DOC["const:header::" + _h] = "http::header standard names"


@model("HeaderName::from_static", doc="http: header name from a static lower-case string")
def _hn_from_static(ctx, a, c):
    s = z3.simplify(a[0])
    return HeaderNameV(s.as_string())


class EntryV(Agg):
    """http::header::Entry<'_, T> = Occupied(OccupiedEntry) | Vacant(VacantEntry) (map.rs); both payloads are
    (map, name).  Behaves like the old aggregate for `or_insert_with`, and like the enum for `match` / `if let`."""

    def __init__(self, m, name):
        super().__init__("entry", [m, name])

    def mir_discriminant(self, ctx):
        m, name = self.f
        return z3.BitVecVal(0 if m.cell(name).v is not None else 1, 64)

    def mir_downcast(self, variant):
        return Agg("entry-variant", [self])


@model("HeaderMap::entry", doc="http header/map.rs: entry for a name (Occupied iff a value is present)")
def _hm_entry(ctx, a, c):
    m = deref(ctx, a[0])
    return EntryV(m, header_name(ctx, a[1]))


@model("VacantEntry::insert", "VacantEntry::insert_entry", doc="http header/map.rs: stores the value for the vacant name")
def _vacant_insert(ctx, a, c):
    m, name = a[0].f
    cell = m.cell(name)
    cell.v = a[1]
    ctx.events.append(("header_inserted", name))
    return Ref(cell)


@model("OccupiedEntry::get", "OccupiedEntry::get_mut", "OccupiedEntry::into_mut", doc="http header/map.rs")
def _occupied_get(ctx, a, c):
    e = deref(ctx, a[0])
    m, name = e.f
    return Ref(m.cell(name))


@model("Entry::or_insert_with", doc="http header/map.rs: existing value kept, else the closure's value is inserted")
def _entry_or_insert_with(ctx, a, c):
    m, name = a[0].f
    cell = m.cell(name)
    if cell.v is None:
        cell.v = call_closure(ctx, a[1], [])
        ctx.events.append(("header_inserted", name))
    return Ref(cell)


@model("HeaderMap::get", doc="http header/map.rs")
def _hm_get(ctx, a, c):
    m = deref(ctx, a[0])
    cell = m.cell(header_name(ctx, a[1]))
    return some(Ref(cell)) if cell.v is not None else none()


@model("HeaderMap::remove", doc="http header/map.rs: removes and returns the value if present")
def _hm_remove(ctx, a, c):
    m = deref(ctx, a[0])
    name = header_name(ctx, a[1])
    cell = m.cell(name)
    v = cell.v
    cell.v = None
    if v is None:
        return none()
    m.removed.append(name)
    return some(v)


@model("HeaderMap::contains_key", doc="http header/map.rs")
def _hm_contains(ctx, a, c):
    m = deref(ctx, a[0])
    return z3.BoolVal(m.cell(header_name(ctx, a[1])).v is not None)


VISIBLE = z3.Union(z3.Range(" ", "~"), z3.Re(z3.StringVal("\t")))


@model("HeaderValue::from_str", doc="http header/value.rs: Ok iff every byte is visible ASCII (32..=126) or TAB")
def _hv_from_str(ctx, a, c):
    s = as_str(ctx, a[0])
    valid = z3.InRe(s, z3.Star(VISIBLE))
    if ctx.branch(valid, "header_value_valid"):
        return ok(HeaderValueV(s))
    return err(Opaque("InvalidHeaderValue"))


@model("HeaderValue::to_str", doc="http header/value.rs: Ok iff all bytes are visible ASCII; values built by from_str always are")
def _hv_to_str(ctx, a, c):
    v = deref(ctx, a[0])
    return ok(v.text)


@model("HeaderValue::as_bytes", "HeaderValue::as_ref", doc="http header/value.rs: the raw bytes of the value (kept as the text the value was built from)")
def _hv_as_bytes(ctx, a, c):
    return deref(ctx, a[0]).text


@model("<Authority as TryFrom<&[u8]>>::try_from", "<Authority as TryFrom<&str>>::try_from", "<Authority as TryFrom>::try_from", "Authority::try_from", "<Authority as FromStr>::from_str", "Authority::from_maybe_shared",
       doc="http uri/authority.rs: parsing text into an Authority: the inverse of as_str for text produced from a structured authority (see str::parse)")
def _authority_try_from(ctx, a, c):
    return _str_parse(ctx, a, "Authority")


class RequestV:
    """http::Request<B>: method, uri, version, headers, extensions each in its own cell"""

    def __init__(self, method, uri, version, headers, ext=None):
        self.method = Cell(method, "req.method")
        self.uri = Cell(uri, "req.uri")
        self.version = Cell(version, "req.version")
        self.headers = Cell(headers, "req.headers")
        self.ext = ext if ext is not None else {}


def req_of(ctx, v):
    r = deref(ctx, v)
    if isinstance(r, RequestV):
        return r
    raise Inconclusive(f"expected Request, got {r!r}")


@model("Request::uri", "Request::uri_mut", doc="http request.rs accessor")
def _req_uri(ctx, a, c):
    return Ref(req_of(ctx, a[0]).uri)


@model("Request::headers", "Request::headers_mut", doc="http request.rs accessor")
def _req_headers(ctx, a, c):
    return Ref(req_of(ctx, a[0]).headers)


@model("Request::version", doc="http request.rs accessor")
def _req_version(ctx, a, c):
    return req_of(ctx, a[0]).version.v


@model("Request::version_mut", doc="http request.rs accessor")
def _req_version_mut(ctx, a, c):
    return Ref(req_of(ctx, a[0]).version)


@model("Request::method", doc="http request.rs accessor")
def _req_method(ctx, a, c):
    return Ref(req_of(ctx, a[0]).method)


class ExtensionsV:
    def __init__(self, req):
        self.req = req


@model("Request::extensions_mut", "Request::extensions", doc="http request.rs accessor")
def _req_ext(ctx, a, c):
    return Ref(Cell(ExtensionsV(req_of(ctx, a[0])), "ext"))


@model("Extensions::get_mut", "Extensions::get", doc="http extensions.rs: typed lookup")
def _ext_get(ctx, a, c):
    e = deref(ctx, a[0])
    m = re.search(r"::get(?:_mut)?::<(.*)>$", c.strip())
    ty = strip_generics(m.group(1)).split("::")[-1] if m else "?"
    cell = e.req.ext.get(ty)
    if cell is None or cell.v is None:
        return none()
    return some(Ref(cell))


# ================================================================================================
# slices / arrays / iterators
# ================================================================================================
class IterV:
    def __init__(self, items):
        self.items = list(items)
        self.pos = 0
        self.count = 0


@model("<[] as IntoIterator>::into_iter", "<&[] as IntoIterator>::into_iter", "slice::iter", "<[]>::iter", "[]::iter", doc="core: slice iterator over element references")
def _slice_into_iter(ctx, a, c):
    r = a[0]
    arr = deref(ctx, r)
    if not isinstance(arr, Agg):
        raise Inconclusive("iteration over " + repr(arr))
    if isinstance(r, Ref):
        return IterV([Ref(r.cell, r.path + (("cindex", i, False),)) for i in range(len(arr.f))])
    return IterV([Ref(Cell(x, "elem")) for x in arr.f])


def _iter_items(ctx, v):
    it = v
    hops = 0
    while isinstance(it, Ref) and hops < 3:
        it = ctx.load(it)
        hops += 1
    if not isinstance(it, IterV):
        raise Inconclusive("iterator adapter on " + repr(it))
    return it


class FilterV:
    """core::iter::Filter over an element iterator: lazy, the predicate runs when an item is pulled"""

    def __init__(self, it, pred):
        self.it, self.pred = it, pred

    def pull(self, ctx):
        it = self.it
        while it.pos < len(it.items):
            x = it.items[it.pos]
            it.pos += 1
            if ctx.branch(call_closure(ctx, self.pred, [Ref(Cell(x, "filter-arg"))]), "filter predicate"):
                return x
        return None


@model("Iterator::filter", "<Iter as Iterator>::filter", doc="core: lazily filtered iterator")
def _iter_filter_lazy(ctx, a, c):
    return FilterV(_iter_items(ctx, a[0]), a[1])


@model("<Filter as Iterator>::for_each", doc="core: body for every item that passes the filter, predicate and body interleaved per item")
def _filter_for_each(ctx, a, c):
    f = a[0]
    if not isinstance(f, FilterV):
        raise Inconclusive("for_each on " + repr(f))
    while True:
        x = f.pull(ctx)
        if x is None:
            return UNIT
        call_closure(ctx, a[1], [x])


@model("<Filter as Iterator>::next", doc="core")
def _filter_next(ctx, a, c):
    f = deref(ctx, a[0])
    x = f.pull(ctx)
    return some(x) if x is not None else none()


@model("<Filter as Iterator>::count", doc="core: number of items passing the filter")
def _filter_count(ctx, a, c):
    f = a[0]
    n = 0
    while f.pull(ctx) is not None:
        n += 1
    return z3.BitVecVal(n, 64)


@model("Iterator::position", "<Iter as Iterator>::position", "<IterMut as Iterator>::position", doc="core: index of the first item for which the predicate holds (items are tested in order, each test may fork)")
def _iter_position(ctx, a, c):
    it = _iter_items(ctx, a[0])
    i = 0
    while it.pos < len(it.items):
        x = it.items[it.pos]
        it.pos += 1
        if ctx.branch(call_closure(ctx, a[1], [x]), "position predicate"):
            return some(z3.BitVecVal(i, 64))
        i += 1
    return none()


@model("Iterator::for_each", "<Iter as Iterator>::for_each", "<IterMut as Iterator>::for_each", "<IntoIter as Iterator>::for_each", doc="core: calls the closure on every remaining item, in order")
def _iter_for_each(ctx, a, c):
    it = _iter_items(ctx, a[0])
    while it.pos < len(it.items):
        x = it.items[it.pos]
        it.pos += 1
        call_closure(ctx, a[1], [x])
    return UNIT


@model("Iterator::any", "<Iter as Iterator>::any", doc="core: short-circuiting existential")
def _iter_any(ctx, a, c):
    it = _iter_items(ctx, a[0])
    while it.pos < len(it.items):
        x = it.items[it.pos]
        it.pos += 1
        if ctx.branch(call_closure(ctx, a[1], [x]), "any predicate"):
            return z3.BoolVal(True)
    return z3.BoolVal(False)


@model("Iterator::all", "<Iter as Iterator>::all", doc="core: short-circuiting universal")
def _iter_all(ctx, a, c):
    it = _iter_items(ctx, a[0])
    while it.pos < len(it.items):
        x = it.items[it.pos]
        it.pos += 1
        if not ctx.branch(call_closure(ctx, a[1], [x]), "all predicate"):
            return z3.BoolVal(False)
    return z3.BoolVal(True)


@model("Iterator::find", "<Iter as Iterator>::find", doc="core: first item for which the predicate holds")
def _iter_find(ctx, a, c):
    it = _iter_items(ctx, a[0])
    while it.pos < len(it.items):
        x = it.items[it.pos]
        it.pos += 1
        if ctx.branch(call_closure(ctx, a[1], [Ref(Cell(x, "find-arg"))]), "find predicate"):
            return some(x)
    return none()


@model("VecDeque::drain", doc="alloc: removes the given range (here: a prefix `..n` or everything) and yields the removed elements in order")
def _dq_drain(ctx, a, c):
    d = dq_of(ctx, a[0])
    r = a[1]
    n = None
    if isinstance(r, Agg) and r.kind.endswith("RangeTo") and len(r.f) == 1:
        n = r.f[0]
    elif isinstance(r, Agg) and r.kind.endswith("RangeFull"):
        n = z3.BitVecVal(len(d.cells), 64)
    if n is None:
        raise Inconclusive("VecDeque::drain range " + repr(r))
    n = z3.simplify(n)
    if not z3.is_bv_value(n):
        # symbolic prefix length: decide it against every possible length
        for k in range(len(d.cells) + 1):
            if ctx.branch(n == k, f"drain length {k}"):
                n = z3.BitVecVal(k, 64)
                break
        else:
            raise Panic("VecDeque::drain: range end out of bounds")
    k = n.as_long()
    if k > len(d.cells):
        raise Panic("VecDeque::drain: range end out of bounds")
    taken, d.cells = d.cells[:k], d.cells[k:]
    return IterV([c_.v for c_ in taken])


@model("<Iter as Iterator>::next", "<IntoIter as Iterator>::next", doc="core: next element or None")
def _iter_next(ctx, a, c):
    it = deref(ctx, a[0])
    if not isinstance(it, IterV):
        raise Inconclusive("next() on " + repr(it))
    if it.pos < len(it.items):
        it.pos += 1
        return some(it.items[it.pos - 1])
    return none()


class FromFnV:
    """core::iter::from_fn(f): every pull calls the closure"""

    def __init__(self, f):
        self.f = f

    def pull(self, ctx):
        r = call_closure(ctx, self.f, [])
        o = need_opt(r)
        return o.f[0] if is_some(o) else None


class TakeWhileV:
    """core::iter::TakeWhile: lazy; the first item that fails the predicate ends the iteration and is dropped"""

    def __init__(self, it, pred):
        self.it, self.pred, self.done = it, pred, False

    def pull(self, ctx):
        if self.done:
            return None
        x = pull_item(ctx, self.it)
        if x is None:
            return None
        if ctx.branch(call_closure(ctx, self.pred, [Ref(Cell(x, "take_while-arg"))]), "take_while predicate"):
            return x
        self.done = True
        ctx.drop_value(x)
        return None


class ChainV:
    """core::iter::Chain: the first iterator, then the second"""

    def __init__(self, a, b):
        self.a, self.b = a, b

    def pull(self, ctx):
        if self.a is not None:
            x = pull_item(ctx, self.a)
            if x is not None:
                return x
            self.a = None
        return pull_item(ctx, self.b)


@model("Iterator::chain", doc="core: items of the receiver, then the items of the argument (any IntoIterator modelled here: iterators and Options)")
def _iter_chain(ctx, a, c):
    b = a[1]
    if isinstance(b, Enum) and b.variant in ("Some", "None"):
        b = IterV([b.f[0]] if is_some(b) else [])
    return ChainV(a[0], b)


def pull_item(ctx, it):
    """next item of any modelled iterator, or None"""
    hops = 0
    while isinstance(it, Ref) and hops < 3:
        it = ctx.load(it)
        hops += 1
    if isinstance(it, IterV):
        if it.pos < len(it.items):
            it.pos += 1
            return it.items[it.pos - 1]
        return None
    if hasattr(it, "pull"):
        return it.pull(ctx)
    raise Inconclusive("iteration over " + repr(it))


@model("iter::from_fn", doc="core: iterator whose next() calls the closure")
def _iter_from_fn(ctx, a, c):
    return FromFnV(a[0])


@model("Iterator::take_while", doc="core: lazily yields items while the predicate holds; the first failing item is consumed and dropped")
def _iter_take_while(ctx, a, c):
    return TakeWhileV(a[0], a[1])


@model("Iterator::find_map", doc="core: first Some(..) the closure returns; items for which it returns None are consumed")
def _iter_find_map(ctx, a, c):
    while True:
        x = pull_item(ctx, a[0])
        if x is None:
            return none()
        r = need_opt(call_closure(ctx, a[1], [x]))
        if is_some(r):
            return r


@model("Iterator::next", "<FromFn as Iterator>::next", "<TakeWhile as Iterator>::next", "<Chain as Iterator>::next", doc="core: next element of a lazy adapter")
def _lazy_next(ctx, a, c):
    x = pull_item(ctx, a[0])
    return none() if x is None else some(x)


@model("<Option as IntoIterator>::into_iter", "Option::into_iter", doc="core: an Option iterates over its zero or one value")
def _opt_into_iter(ctx, a, c):
    o = need_opt(a[0])
    return IterV([o.f[0]] if is_some(o) else [])


@model("Option::and", doc="core: None if self is None, otherwise the other option")
def _opt_and(ctx, a, c):
    return a[1] if is_some(need_opt(a[0])) else none()


@model("<Iter as IntoIterator>::into_iter", "<Enumerate as IntoIterator>::into_iter", "<IntoIter as IntoIterator>::into_iter", "<FromFn as IntoIterator>::into_iter", "<TakeWhile as IntoIterator>::into_iter", "<Chain as IntoIterator>::into_iter",
       doc="core: iterators are their own IntoIterator")
def _iter_into_iter(ctx, a, c):
    return a[0]


@model("Into::into", "From::from", doc="core: the conversions that occur (&str -> String / Box<str>, error boxing) preserve the value")
def _into(ctx, a, c):
    return a[0]


# ================================================================================================
# rustls / tokio-rustls (client side): only what hyperdriver's own decisions touch
# ================================================================================================
_AL = z3.Union(z3.Range("a", "z"), z3.Range("A", "Z"), z3.Re(z3.StringVal("_")))
_DG = z3.Range("0", "9")
_ALNUM_ = z3.Union(_AL, _DG)
_HY = z3.Re(z3.StringVal("-"))
# a label: no leading/trailing hyphen, non-empty (rustls-pki-types server_name.rs `validate`)
_LABEL = z3.Union(_ALNUM_, z3.Concat(_ALNUM_, z3.Star(z3.Union(_ALNUM_, _HY)), _ALNUM_))
_NUM_LABEL = z3.Plus(_DG)
_DOT = z3.Re(z3.StringVal("."))
# last label must not be numeric-only; one trailing dot is accepted
_M = z3.Union(_ALNUM_, _HY)
_LAST = z3.Union(_AL, z3.Concat(_AL, z3.Star(_M), _ALNUM_), z3.Concat(z3.Plus(_DG), _AL), z3.Concat(z3.Plus(_DG), _AL, z3.Star(_M), _ALNUM_),
                 z3.Concat(z3.Plus(_DG), _HY, z3.Star(_M), _ALNUM_))
DNS_NAME = z3.Concat(z3.Star(z3.Concat(_LABEL, _DOT)), _LAST, z3.Option(_DOT))
_OCTET = z3.Union(_DG, z3.Concat(z3.Range("1", "9"), _DG), z3.Concat(z3.Re(z3.StringVal("1")), _DG, _DG),
                  z3.Concat(z3.Re(z3.StringVal("2")), z3.Range("0", "4"), _DG), z3.Concat(z3.Re(z3.StringVal("25")), z3.Range("0", "5")))
IPV4 = z3.Concat(_OCTET, _DOT, _OCTET, _DOT, _OCTET, _DOT, _OCTET)


_HEX = z3.Union(z3.Range("0", "9"), z3.Range("a", "f"), z3.Range("A", "F"))
_H16 = z3.Loop(_HEX, 1, 4)
_GROUPS = z3.Concat(_H16, z3.Star(z3.Concat(z3.Re(z3.StringVal(":")), _H16)))
# compressed IPv6 literals of at most 12 characters (then at most 7 groups are written, as `::` requires);
# the uncompressed form needs >= 15 characters and is outside the bound
IPV6_SHORT = z3.Concat(z3.Option(_GROUPS), z3.Re(z3.StringVal("::")), z3.Option(_GROUPS))


def valid_server_name(s, ctx=None):
    """z3 predicate: rustls accepts `s` as a ServerName. For strings registered by the input
    builder (ctx.sn_registry) this is an abstract Bool whose definition (the regex below) is
    added lazily, only to queries that would otherwise report a counterexample."""
    if ctx is not None:
        known = getattr(ctx, "sn_registry", {}).get(s.get_id())
        if known is not None:
            return known
    return valid_server_name_def(s)


def valid_server_name_def(s):
    """DNS names and IPv4 exactly, IPv6 literals of <= 12 characters exactly (core::net parser
    grammar), anything with brackets: no"""
    has_bracket = z3.Or(z3.Contains(s, z3.StringVal("[")), z3.Contains(s, z3.StringVal("]")))
    return z3.And(z3.Not(has_bracket), z3.Or(z3.InRe(s, DNS_NAME), z3.InRe(s, IPV4), z3.And(z3.InRe(s, IPV6_SHORT), z3.Length(s) <= 12)), z3.Length(s) <= 253)


def bare_host(host_or_auth):
    """URI host without the brackets of an IPv6 literal"""
    if isinstance(host_or_auth, AuthorityV):
        return host_or_auth.inner
    host = host_or_auth
    return z3.If(z3.PrefixOf(z3.StringVal("["), host), z3.SubString(host, 1, z3.Length(host) - 2), host)


class ServerNameV:
    def __init__(self, text):
        self.text = text

    def clone_model(self, ctx):
        return self


@model("<ServerName as TryFrom>::try_from", doc="rustls-pki-types 1.11 server_name.rs: Ok iff the text is a valid DNS name (labels of [A-Za-z0-9_-], no empty label, no leading/trailing hyphen, last label not numeric-only, optional trailing dot) or an IP literal WITHOUT brackets; modelled exactly for names and IPv4, and as 'never valid' for any text containing '[' or ']'")
def _server_name_try_from(ctx, a, c):
    s = as_str(ctx, a[0])
    known = getattr(ctx, "sn_registry", {}).get(s.get_id())
    if known is None:
        has_bracket = z3.Or(z3.Contains(s, z3.StringVal("[")), z3.Contains(s, z3.StringVal("]")))
        has_colon = z3.Contains(s, z3.StringVal(":"))
        # IPv6 literals longer than 12 characters are outside the modelled grammar
        if ctx.feasible(z3.And(has_colon, z3.Not(has_bracket), z3.Length(s) > 12)):
            raise Inconclusive("ServerName::try_from on an IPv6 literal longer than 12 characters is not modelled")
    valid = valid_server_name(s, ctx)
    if ctx.branch(valid, "server_name_valid"):
        return ok(ServerNameV(s))
    return err(Opaque("InvalidDnsNameError"))


@model("ServerName::to_owned", doc="rustls-pki-types: owned copy")
def _server_name_to_owned(ctx, a, c):
    return deref(ctx, a[0])


@model("<TlsConnector as From>::from", doc="tokio-rustls: connector from a client config")
def _tls_connector_from(ctx, a, c):
    return Opaque("TlsConnector")


class TlsConnectV:
    """tokio_rustls::Connect<IO>: the pending handshake; remembers the server name it will offer/verify"""

    def __init__(self, name, io):
        self.name = name
        self.io = io


@model("TlsConnector::connect", doc="tokio-rustls: starts a client handshake that offers `domain` as SNI and verifies the certificate against it")
def _tls_connect(ctx, a, c):
    ctx.events.append(("tls_connect", a[1]))
    return TlsConnectV(a[1], a[2])


@model("<Arc as Clone>::clone", "Arc::clone", doc="alloc: Arc clone shares the value")
def _arc_clone(ctx, a, c):
    return deref(ctx, a[0])


# ---- parsing text back into structured values (only text the input builder produced) --------------
@model("str::parse", doc="core: `s.parse::<Uri>()` for path-and-query texts ('/'... and '*' parse, '?'... and '' do not); `s.parse::<http::uri::Authority>()`: the inverse of Authority::as_str for text that was produced from a structured authority (registered by the input builder); any other text is inconclusive")
def _str_parse(ctx, a, c):
    s = as_str(ctx, a[0])
    if re.search(r"parse::<(http::)?(uri::)?Uri>", c):
        # http::Uri::from_str (uri/mod.rs from_shared) on a path-and-query text: a text that starts with '/' is parsed as
        # path-and-query only, "*" is the asterisk form; anything else must start with a scheme or an authority, so a
        # text beginning with '?' is rejected (InvalidFormat), the empty text too (Empty)
        if ctx.branch(z3.PrefixOf(z3.StringVal("/"), s), "text starts with '/'") or ctx.branch(s == z3.StringVal("*"), "text is '*'"):
            return ok(UriV(z3.BoolVal(False), z3.StringVal(""), z3.BoolVal(False), AuthorityV(z3.StringVal(""), z3.BoolVal(False), z3.BitVecVal(0, 16)), s))
        if ctx.branch(z3.Or(z3.PrefixOf(z3.StringVal("?"), s), s == z3.StringVal("")), "text starts with '?' or is empty"):
            return err(Opaque("InvalidUri"))
        raise Inconclusive("str::parse::<Uri> of a text that is not a path-and-query")
    if "Authority" not in c:
        raise Inconclusive("str::parse for " + c)
    reg = getattr(ctx, "parse_registry", {})
    v = reg.get(s.get_id())
    if v is not None:
        return ok(v)
    # the same text under another term?
    for cand in list(reg.values()):
        if ctx.branch(s == cand.as_str_model(ctx), "text equals a known authority"):
            return ok(cand)
    # a host that some registered authority carries (e.g. the text left after stripping ":port")
    for cand in list(reg.values()):
        if s.get_id() == cand.host.get_id():
            return ok(AuthorityV(cand.host, z3.BoolVal(False), z3.BitVecVal(0, 16), inner=cand.inner, bracketed=cand.bracketed))
    # a bare registered name (letters/digits/dots/dashes) parses as a host-only authority
    name = z3.Plus(z3.Union(z3.Range("a", "z"), z3.Range("A", "Z"), z3.Range("0", "9"), z3.Re(z3.StringVal(".")), z3.Re(z3.StringVal("-"))))
    if ctx.branch(z3.InRe(s, name), "text is a bare host name"):
        return ok(AuthorityV(s, z3.BoolVal(False), z3.BitVecVal(0, 16)))
    raise Inconclusive("str::parse::<Authority> of text that is neither a registered authority nor a bare host name")


@model("<&str as PartialEq>::ne", "<&str as PartialEq<&str>>::ne", doc="core")
def _refstr_ne(ctx, a, c):
    return as_str(ctx, a[0]) != as_str(ctx, a[1])


@model("<&str as PartialEq>::eq", doc="core")
def _refstr_eq(ctx, a, c):
    return as_str(ctx, a[0]) == as_str(ctx, a[1])


@model("<Authority as ToString>::to_string", doc="http: Display of an authority is its text")
def _auth_to_string(ctx, a, c):
    return as_str(ctx, a[0])


# ================================================================================================
# VecDeque (alloc::collections::vec_deque) as a list of cells; std::net::SocketAddr
# ================================================================================================
class VecDequeV:
    def __init__(self, items=()):
        self.cells = [Cell(x, "dq") for x in items]

    def clone_model(self, ctx):
        return VecDequeV([clone_value(ctx, c.v) for c in self.cells])

    def values(self):
        return [c.v for c in self.cells]

    def mir_drop(self, ctx):
        cells, self.cells = self.cells, []
        for c in cells:
            if c.v is not None and not is_z3(c.v):
                ctx.drop_value(c.v)


def dq_of(ctx, v):
    d = deref(ctx, v)
    if not isinstance(d, VecDequeV):
        raise Inconclusive("expected VecDeque, got " + repr(d))
    return d


@model("VecDeque::iter", "VecDeque::iter_mut", "<&VecDeque as IntoIterator>::into_iter", "<&mut VecDeque as IntoIterator>::into_iter", "<VecDeque as IntoIterator>::into_iter", doc="alloc: front-to-back iteration over element references")
def _dq_iter(ctx, a, c):
    return IterV([Ref(cell) for cell in dq_of(ctx, a[0]).cells])


@model("<Iter as Iterator>::enumerate", "Iterator::enumerate", doc="core: pairs (index, item)")
def _enumerate(ctx, a, c):
    it = a[0]
    it.enum = True
    return it


@model("<Enumerate as Iterator>::next", "<IterMut as Iterator>::next", doc="core: next (index, item) / item")
def _enum_next(ctx, a, c):
    it = deref(ctx, a[0])
    if not isinstance(it, IterV):
        raise Inconclusive("next() on " + repr(it))
    if it.pos >= len(it.items):
        return none()
    i = it.pos
    it.pos += 1
    if getattr(it, "enum", False):
        return some(Agg("tuple", [z3.BitVecVal(i, 64), it.items[i]]))
    return some(it.items[i])


def _concrete_index(ctx, v, what):
    s = z3.simplify(v)
    if not z3.is_bv_value(s):
        raise Inconclusive(what + " with a symbolic index")
    return s.as_long()


@model("VecDeque::remove", doc="alloc: removes and returns the element at index, shifting the rest; None if out of bounds")
def _dq_remove(ctx, a, c):
    d = dq_of(ctx, a[0])
    i = _concrete_index(ctx, a[1], "VecDeque::remove")
    if i >= len(d.cells):
        return none()
    return some(d.cells.pop(i).v)


@model("VecDeque::push_front", doc="alloc")
def _dq_push_front(ctx, a, c):
    dq_of(ctx, a[0]).cells.insert(0, Cell(a[1], "dq"))
    return UNIT


@model("VecDeque::push_back", doc="alloc")
def _dq_push_back(ctx, a, c):
    dq_of(ctx, a[0]).cells.append(Cell(a[1], "dq"))
    return UNIT


@model("VecDeque::pop_front", doc="alloc")
def _dq_pop_front(ctx, a, c):
    d = dq_of(ctx, a[0])
    return some(d.cells.pop(0).v) if d.cells else none()


@model("VecDeque::retain", doc="alloc: keeps the elements for which the closure returns true (the closure's MIR is executed per element; its verdict must be concrete), drops the others, preserves order")
def _dq_retain(ctx, a, c):
    d = dq_of(ctx, a[0])
    kept, dropped = [], []
    for cell in list(d.cells):
        r = call_closure(ctx, a[1], [Ref(cell)])
        r = z3.simplify(r) if is_z3(r) else r
        if z3.is_true(r):
            kept.append(cell)
        elif z3.is_false(r):
            dropped.append(cell)
        else:
            raise Inconclusive("VecDeque::retain with a symbolic predicate result")
    d.cells = kept
    for cell in dropped:
        if cell.v is not None and not is_z3(cell.v):
            ctx.drop_value(cell.v)
    return UNIT


@model("VecDeque::pop_back", doc="alloc")
def _dq_pop_back(ctx, a, c):
    d = dq_of(ctx, a[0])
    return some(d.cells.pop().v) if d.cells else none()


@model("VecDeque::front", "VecDeque::back", doc="alloc: reference to the first / last element")
def _dq_front_back(ctx, a, c):
    d = dq_of(ctx, a[0])
    if not d.cells:
        return none()
    return some(Ref(d.cells[0] if c.split("::")[-1].startswith("front") else d.cells[-1]))


@model("VecDeque::len", doc="alloc")
def _dq_len(ctx, a, c):
    return z3.BitVecVal(len(dq_of(ctx, a[0]).cells), 64)


@model("VecDeque::is_empty", doc="alloc")
def _dq_is_empty(ctx, a, c):
    return z3.BoolVal(not dq_of(ctx, a[0]).cells)


@model("VecDeque::new", "<VecDeque as Default>::default", doc="alloc")
def _dq_new(ctx, a, c):
    return VecDequeV()


@model("SocketAddr::ip", doc="std::net")
def _sa_ip(ctx, a, c):
    sa = deref(ctx, a[0])
    return Enum("IpAddr", sa.variant, sa.idx, [sa.f[0].f[0]])


@model("SocketAddr::port", doc="std::net")
def _sa_port(ctx, a, c):
    return deref(ctx, a[0]).f[0].f[1]


@model("SocketAddr::new", doc="std::net")
def _sa_new(ctx, a, c):
    ip = a[0]
    return Enum("SocketAddr", ip.variant, ip.idx, [Agg("addr", [ip.f[0], a[1]])])


@model("Ipv6Addr::to_ipv4_mapped", doc="std::net: Some(v4) for ::ffff:a.b.c.d")
def _to_v4_mapped(ctx, a, c):
    ip = deref(ctx, a[0])
    if ctx.branch(z3.Extract(127, 32, ip) == z3.BitVecVal(0xFFFF, 96), "v4-mapped"):
        return some(ip)
    return none()


@model("SocketAddr::set_port", doc="std::net: replaces the port, keeps the address")
def _sa_set_port(ctx, a, c):
    sa = deref(ctx, a[0])
    if not (isinstance(sa, Enum) and sa.ty == "SocketAddr"):
        raise Inconclusive("set_port on " + repr(sa))
    ctx.store(a[0], Enum("SocketAddr", sa.variant, sa.idx, [Agg("addr", [sa.f[0].f[0], a[1]])]))
    return UNIT


# ================================================================================================
# Pin / channels
# ================================================================================================
@model("<Pin as DerefMut>::deref_mut", "<Pin as Deref>::deref", "Pin::get_mut", "Pin::get_unchecked_mut", "Pin::get_ref", "Pin::into_ref", "Pin::new", "Pin::new_unchecked", "Pin::as_mut", "Pin::as_ref",
       "Pin::into_inner", "Pin::set",
       doc="core::pin: Pin<P> is represented by P itself; (de)referencing and re-pinning are the identity on the pointer")
def _pin_identity(ctx, a, c):
    v = a[0]
    if c.strip().split("::")[-1].startswith("set"):
        ctx.store(deref_once(ctx, v), a[1])
        return UNIT
    # `&mut Pin<&mut T>` -> the inner `&mut T`
    inner = v
    if isinstance(inner, Ref):
        tgt = ctx.load(inner)
        if isinstance(tgt, Ref):
            return tgt
    return inner


def deref_once(ctx, v):
    if isinstance(v, Ref):
        t = ctx.load(v)
        if isinstance(t, Ref):
            return t
    return v


class OneshotSenderV:
    """tokio::sync::oneshot::Sender<T>: `alive` = the receiving half still exists and is open"""

    def __init__(self, alive, tag=""):
        self.alive = alive
        self.tag = tag
        self.sent = None
        self.dropped = False

    def mir_drop(self, ctx):
        self.dropped = True


@model("Sender::send", doc="tokio oneshot: Ok(()) and the value is delivered iff the receiver is still there, else Err(value) hands the value back")
def _oneshot_send(ctx, a, c):
    s = a[0]
    if not isinstance(s, OneshotSenderV):
        raise Inconclusive("oneshot send on " + repr(s))
    if ctx.branch(s.alive, "receiver alive at send"):
        s.sent = a[1]
        ctx.events.append(("oneshot_delivered", s.tag, a[1]))
        return ok(UNIT)
    return err(a[1])


@model("Sender::is_closed", doc="tokio oneshot: true iff the receiver was dropped or closed")
def _oneshot_is_closed(ctx, a, c):
    s = deref(ctx, a[0])
    if not isinstance(s, OneshotSenderV):
        raise Inconclusive("is_closed on " + repr(s))
    return z3.Not(s.alive)


@model("cmp::min", "std::cmp::min", doc="core")
def _min(ctx, a, c):
    return z3.If(z3.ULE(a[0], a[1]), a[0], a[1])


# ================================================================================================
# byte / index level access to strings
# ================================================================================================
def len_bv(ctx, s):
    """length of a (short) z3 string as a 64-bit value: a fresh bit-vector tied to Length(s)
    (int2bv over str.len is hard for the solvers; bv2int of a bounded value is not)"""
    cache = getattr(ctx, "_len_cache", None)
    if cache is None:
        cache = ctx._len_cache = {}
    k = s.get_id()
    if k not in cache:
        n = ctx.fresh_bv(64, "len")
        ctx.assume(z3.ULT(n, 256))
        ctx.assume(z3.BV2Int(n) == z3.Length(s))
        cache[k] = (n, s)
    return cache[k][0]


class StrBytesV:
    """`s.as_bytes()`: length and bytes of a z3 string (ASCII alphabet of the inputs)"""

    def __init__(self, s):
        self.s = s

    def mir_len(self, ctx):
        return len_bv(ctx, self.s)

    def mir_index(self, ctx, idx):
        i = z3.BV2Int(idx)
        return z3.Int2BV(z3.StrToCode(z3.SubString(self.s, i, 1)), 8)


@model("str::as_bytes", "String::as_bytes", doc="core: byte view of a string")
def _as_bytes(ctx, a, c):
    return Ref(Cell(StrBytesV(as_str(ctx, a[0])), "bytes"))


@model("str::len", "String::len", doc="core: length in bytes")
def _str_len(ctx, a, c):
    return len_bv(ctx, as_str(ctx, a[0]))


@model("<str as Index>::index", "<String as Index>::index", doc="core: `s[a..b]` panics unless a <= b <= len (inputs are ASCII, so every index is a char boundary)")
def _str_index(ctx, a, c):
    s = as_str(ctx, a[0])
    r = a[1]
    n = z3.Length(s)
    if isinstance(r, Agg) and r.kind == "struct:Range":
        lo, hi = z3.BV2Int(r.f[0]), z3.BV2Int(r.f[1])
    elif isinstance(r, Agg) and r.kind == "struct:RangeFrom":
        lo, hi = z3.BV2Int(r.f[0]), n
    elif isinstance(r, Agg) and r.kind == "struct:RangeTo":
        lo, hi = z3.IntVal(0), z3.BV2Int(r.f[0])
    else:
        raise Inconclusive("string index by " + repr(r))
    if not ctx.branch(z3.And(lo <= hi, hi <= n), "slice range valid"):
        raise Panic("byte index out of range while slicing a str")
    return z3.SubString(s, lo, hi - lo)


class SplitV:
    def __init__(self, s, ch, rev):
        self.s, self.ch, self.rev = s, ch, rev
        self.count = 0


@model("str::split", "str::rsplit", doc="core: split on a char pattern; only the first item of the iterator is modelled (text before the first / after the last occurrence)")
def _split(ctx, a, c):
    ch = z3.simplify(a[1])
    if not z3.is_bv_value(ch):
        raise Inconclusive("split pattern")
    return SplitV(as_str(ctx, a[0]), z3.StringVal(chr(ch.as_long())), "rsplit" in c.split("::")[-2:][0] or "::rsplit" in c)


@model("<Split as Iterator>::next", "<RSplit as Iterator>::next", doc="core: first item of split / rsplit")
def _split_next(ctx, a, c):
    it = deref(ctx, a[0])
    if it.count > 0:
        raise Inconclusive("second item of a str split iterator")
    it.count += 1
    s, ch = it.s, it.ch
    known = getattr(ctx, "parse_registry", {}).get(s.get_id())
    if known is not None and z3.simplify(ch == z3.StringVal("@")) and z3.is_true(z3.simplify(ch == z3.StringVal("@"))):
        # text built from a structured authority: `@` occurs only between userinfo and host[:port]
        hp = known._hp
        if known.userinfo is None or it.rev:
            return some(hp)
        return some(z3.If(known.userinfo == z3.StringVal(""), hp, known.userinfo))
    if it.rev:
        i = z3.LastIndexOf(s, ch)
        return some(z3.If(i < 0, s, z3.SubString(s, i + 1, z3.Length(s) - i - 1)))
    i = z3.IndexOf(s, ch, 0)
    return some(z3.If(i < 0, s, z3.SubString(s, 0, i)))


@model("str::rsplit_once", "str::split_once", doc="core: (before, after) the last / first occurrence of a char pattern, None without one")
def _split_once(ctx, a, c):
    ch = z3.simplify(a[1])
    if not z3.is_bv_value(ch):
        raise Inconclusive("split_once pattern")
    s = as_str(ctx, a[0])
    pat = z3.StringVal(chr(ch.as_long()))
    rev = "rsplit_once" in c
    known = getattr(ctx, "parse_registry", {}).get(s.get_id())
    if known is not None and chr(ch.as_long()) == ":" and rev:
        # text built from a structured authority: [userinfo@]host[:port]; the input builder's userinfo
        # alphabet has no ':', so the last colon is the port separator or lies inside an IPv6 literal
        if known.userinfo is None:
            prefix = z3.StringVal("")
        else:
            prefix = z3.If(known.userinfo == z3.StringVal(""), z3.StringVal(""), z3.Concat(known.userinfo, z3.StringVal("@")))
        if ctx.branch(known.has_port, "has_port"):
            before = z3.simplify(z3.Concat(prefix, known.host))
            stripped = AuthorityV(known.host, z3.BoolVal(False), z3.BitVecVal(0, 16), inner=known.inner, bracketed=known.bracketed)
            stripped.userinfo = known.userinfo
            stripped._text, stripped._hp = before, known.host
            ctx.parse_registry[before.get_id()] = stripped
            return some(Agg("tuple", [before, known.port_text]))
        i = z3.LastIndexOf(known.host, pat)
        if ctx.branch(i < 0, "no colon in host"):
            return none()
        return some(Agg("tuple", [z3.Concat(prefix, z3.SubString(known.host, 0, i)), z3.SubString(known.host, i + 1, z3.Length(known.host) - i - 1)]))
    i = z3.LastIndexOf(s, pat) if rev else z3.IndexOf(s, pat, 0)
    if ctx.branch(i < 0, "pattern absent"):
        return none()
    return some(Agg("tuple", [z3.SubString(s, 0, i), z3.SubString(s, i + 1, z3.Length(s) - i - 1)]))


@model("str::find", doc="core: byte index of the first occurrence of a char pattern")
def _str_find(ctx, a, c):
    ch = z3.simplify(a[1])
    if not z3.is_bv_value(ch):
        raise Inconclusive("find pattern")
    s = as_str(ctx, a[0])
    i = z3.IndexOf(s, z3.StringVal(chr(ch.as_long())), 0)
    if ctx.branch(i >= 0, "pattern found"):
        return some(z3.Int2BV(i, 64))
    return none()


@model("str::starts_with", doc="core: char / str prefix test")
def _starts_with(ctx, a, c):
    p = a[1]
    if z3.is_bv(p):
        p = z3.simplify(p)
        p = z3.StringVal(chr(p.as_long()))
    else:
        p = as_str(ctx, p)
    return z3.PrefixOf(p, as_str(ctx, a[0]))


@model("str::ends_with", doc="core")
def _ends_with(ctx, a, c):
    p = a[1]
    if z3.is_bv(p):
        p = z3.simplify(p)
        p = z3.StringVal(chr(p.as_long()))
    else:
        p = as_str(ctx, p)
    return z3.SuffixOf(p, as_str(ctx, a[0]))


@model("str::contains", doc="core")
def _contains(ctx, a, c):
    p = a[1]
    if z3.is_bv(p):
        p = z3.simplify(p)
        p = z3.StringVal(chr(p.as_long()))
    else:
        p = as_str(ctx, p)
    return z3.Contains(as_str(ctx, a[0]), p)


@model("Poll::is_ready", doc="core")
def _poll_is_ready(ctx, a, c):
    return z3.BoolVal(deref(ctx, a[0]).variant == "Ready")


@model("Poll::is_pending", doc="core")
def _poll_is_pending(ctx, a, c):
    return z3.BoolVal(deref(ctx, a[0]).variant == "Pending")


@model("Poll::map", doc="core: Ready(x) => Ready(f(x))")
def _poll_map(ctx, a, c):
    p = a[0]
    if p.variant == "Pending":
        return p
    return Enum("Poll", "Ready", 0, [call_closure(ctx, a[1], [p.f[0]])])
