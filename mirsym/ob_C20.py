"""C20 obligations: SNI validation forwards a request only if its host is the TLS server name."""
import z3

from inputs import ConnV, SvcV, authority_text, ev, sym_authority
from interp import Agg, Cell, Enum, Ref, none, some
from models import AuthorityV, HeaderMapV, HeaderValueV, RequestV, UriV, VERSIONS, deref, lower

H2 = VERSIONS["HTTP_2"]


def obligations(prog, src, tier, seed):
    obs = []
    f_handle = prog.find_one(r"^handle$", r"http::Request")
    maxlen = 3 if tier == "quick" else 5

    def build(ctx):
        version = z3.BitVec("version", 8)
        ctx.assume(z3.ULE(version, 4))
        # Host header: absent or host[:port]
        hdr = sym_authority(ctx, "_hdr", maxlen, upper=True)
        uria = sym_authority(ctx, "_uri", maxlen, upper=True)
        sni = sym_authority(ctx, "_sni", maxlen, upper=True)
        has_hdr = ctx.choose([(True, False), (True, True)], "Host header present")
        uri_has_auth = ctx.choose([(True, False), (True, True)], "URI authority present")
        tls = ctx.choose([(True, "none"), (True, "no_sni"), (True, "sni")], "tls info")
        hm = HeaderMapV()
        if has_hdr:
            hm.cell("host").v = HeaderValueV(hdr.as_str_model(ctx))
        if uri_has_auth:
            u = UriV(z3.BoolVal(True), z3.StringVal("https"), z3.BoolVal(True), uria, z3.StringVal("/"))
        else:
            u = UriV(z3.BoolVal(False), z3.StringVal(""), z3.BoolVal(False), AuthorityV(z3.StringVal(""), z3.BoolVal(False), z3.BitVecVal(0, 16)), z3.StringVal("/"))
        req = RequestV(z3.BitVec("method", 8), u, version, hm)
        if tls != "none":
            # SNI never carries a port; rustls hands the name over as text
            ctx.assume(z3.Not(sni.has_port))
            ctx.assume(z3.Not(sni.bracketed))
            sn = some(sni.as_str_model(ctx)) if tls == "sni" else none()
            info = Agg("struct:TlsConnectionInfo", [sn, z3.BoolVal(False), none()])
            req.ext["TlsConnectionInfo"] = Cell(info, "tlsinfo")
        ctx.req, ctx.hdr, ctx.uria, ctx.sni = req, hdr, uria, sni
        ctx.has_hdr, ctx.uri_has_auth, ctx.tls, ctx.version = has_hdr, uri_has_auth, tls, version
        return req

    def run(ctx):
        req = build(ctx)
        return ctx.exec_fn(f_handle, [Ref(Cell(req, "req"))])

    def check(p):
        if p.outcome == "panic":
            return [("SNI validation panics: " + str(p.value)[:60], False)]
        ctx = p.ctx
        rejected = p.value.variant == "Some"
        is_h2 = ctx.version == H2
        props = []
        if ctx.tls == "none":
            # not a TLS connection: the statement only speaks about requests that arrived over TLS
            props.append(("non-TLS request must be forwarded untouched", not rejected))
            return props
        info = ctx.req.ext["TlsConnectionInfo"].v
        validated = info.f[1]
        # which host does the request name?   HTTP/2: authority, failing that the Host header; else: the Host header
        def named(ver_is_h2):
            if ver_is_h2:
                if ctx.uri_has_auth:
                    return ctx.uria
                return ctx.hdr if ctx.has_hdr else None
            return ctx.hdr if ctx.has_hdr else None
        for ver_h2 in (True, False):
            cond = is_h2 if ver_h2 else z3.Not(is_h2)
            nh = named(ver_h2)
            tag = "HTTP/2" if ver_h2 else "HTTP/1"
            if nh is None:
                props.append((f"{tag}: request naming no host must not be rejected for its host", z3.Implies(cond, z3.BoolVal(True))))
                props.append((f"{tag}: request naming no host is not marked validated", z3.Implies(cond, z3.Not(validated))))
                continue
            if ctx.tls == "no_sni":
                props.append((f"{tag}: a request naming a host is rejected when no server name was sent", z3.Implies(cond, z3.BoolVal(rejected))))
                continue
            same = z3.And(nh.lower_inner == ctx.sni.lower_inner, nh.bracketed == ctx.sni.bracketed)
            props.append((f"{tag}: a request whose host differs from the server name must be rejected", z3.Implies(z3.And(cond, z3.Not(same)), z3.BoolVal(rejected))))
            props.append((f"{tag}: a request whose host equals the server name (ignoring ASCII case and port) must never be rejected", z3.Implies(z3.And(cond, same), z3.BoolVal(not rejected))))
            props.append((f"{tag}: forwarded request naming a host is marked validated", z3.Implies(z3.And(cond, z3.BoolVal(not rejected)), validated)))
        return props

    def extract(p, m):
        ctx = p.ctx
        scn = {"family": "sni", "version": ev(m, ctx.version)}
        if ctx.has_hdr:
            scn["header.host"] = authority_text(m, ctx.hdr)
        if ctx.uri_has_auth:
            scn["authority"] = authority_text(m, ctx.uria)
        scn["tls"] = ctx.tls
        if ctx.tls == "sni":
            scn["server_name"] = ev(m, ctx.sni.host)
        return scn

    def judge(scn, out):
        """concrete reference predicate; True = native run violates the property"""
        if out.get("result", "").startswith(("panic", "crash")):
            return True
        if "input_error" in out:
            return None
        forwarded = out.get("forwarded") == "1"
        if scn["tls"] == "none":
            return not forwarded
        v = int(scn["version"])
        named = None
        if v == H2:
            named = scn.get("authority") or scn.get("header.host")
        else:
            named = scn.get("header.host")
        if named is None:
            # nothing to validate: must be forwarded, and must not be flagged as validated
            return (not forwarded) or out.get("validated") == "true"
        from inputs import parse_authority
        host = parse_authority(named)[0].lower()
        if scn["tls"] == "no_sni":
            return forwarded
        ok = host == scn["server_name"].lower()
        if ok != forwarded:
            return True
        if forwarded and out.get("validated") != "true":
            return True
        return False

    obs.append({"name": "c20_sni_validation", "family": "sni_handle", "funcs": ["server::conn::tls::sni::handle", "info::tls::TlsConnectionInfo::validated"],
                "bound": f"hosts <= {maxlen} characters over [A-Za-z0-9.-] (quick 3 / thorough 5) for Host header, URI authority and server name independently, optional port on the first two, all five versions, TLS info absent / without server name / with server name",
                "doc": "forwarded iff (no TLS) or (no host named) or (server name present and equal to the named host ignoring ASCII case and port); then marked validated",
                "run": run, "check": check, "cex_extract": extract, "judge": judge, "max_paths": 4000})
    return obs
