"""C13 obligations decided over MIR: Host header, HTTP/1 request-target forms, HTTP/2 sanitising."""
import z3

from inputs import ConnV, SvcV, ev, expected_host_value, parse_authority, sym_uri, uri_scenario
from interp import Agg, Cell, Enum, Inconclusive, Opaque, Ref
from models import METHODS, HeaderMapV, HeaderValueV, RequestV, UriV, VERSIONS, deref, model, uri_text

H2 = VERSIONS["HTTP_2"]
CONNECT = METHODS.index("CONNECT")


def mk_request(ctx, with_host_choice=True, headers=("host",), shape_pq=False):
    u = sym_uri(ctx, shape_pq=shape_pq)
    hm = HeaderMapV()
    preset = {}
    for h in headers:
        pre = ctx.choose([(True, False), (True, True)], "preset " + h)
        preset[h] = pre
        if pre:
            hm.cell(h).v = HeaderValueV(z3.String("preset_" + h.replace("-", "_")))
    method = z3.BitVec("method", 8)
    version = z3.BitVec("version", 8)
    ctx.assume(z3.ULE(version, 4))
    req = RequestV(method, u, version, hm)
    ctx.req, ctx.u, ctx.preset = req, u, preset
    return req


def host_spec(ctx, applies):
    """Host header after the call, given whether the layer must act (`applies`: z3 Bool)"""
    req, u = ctx.req, ctx.u
    hv = req.headers.v.cell("host").v
    if ctx.preset["host"]:
        return [("caller supplied Host header is left untouched", hv is not None and hv.text == z3.String("preset_host"))]
    if hv is None:
        return [("Host header missing although the connection is HTTP/1 and the URI has a host", z3.Not(z3.And(applies, u.has_auth)))]
    return [("Host header inserted although not applicable", z3.And(applies, u.has_auth)),
            ("Host header value is host[:non-default-port]", hv.text == expected_host_value(u))]


def uri_unchanged(ctx):
    now = ctx.req.uri.v
    u = ctx.u
    return now is u or (isinstance(now, UriV) and all(x is y for x, y in [(now.has_scheme, u.has_scheme), (now.scheme, u.scheme), (now.has_auth, u.has_auth), (now.pq, u.pq)]) and now.auth is u.auth)


def scenario(layer, hdrs=("host",)):
    def ex(p, m):
        ctx = p.ctx
        scn = {"family": "layers", "layer": layer}
        scn.update(uri_scenario(m, ctx.u))
        scn["version"] = ev(m, z3.BitVec("version", 8))
        mv = ev(m, z3.BitVec("method", 8))
        scn["method"] = METHODS[mv] if mv < len(METHODS) else "PURGE"
        if hasattr(ctx, "cv"):
            scn["conn_version"] = ev(m, ctx.cv)
        for h in hdrs:
            if ctx.preset.get(h):
                scn["header." + h] = "preset" if h != "content-length" else "0"
        return scn
    return ex


def judge_host(scn, out):
    """concrete reference for the Host header; True = the native run violates the property"""
    if out.get("result", "").startswith(("panic", "crash")):
        return True
    if "input_error" in out:
        return None
    layer = scn["layer"]
    v = int(scn["conn_version"]) if layer == "host_execute" else int(scn["version"])
    applies = True if layer == "set" else v < H2
    got = out.get("header.host")
    if "header.host" in scn:
        return got != scn["header.host"]
    if not applies or "authority" not in scn:
        return got is not None
    host, port = parse_authority(scn["authority"])
    secure = scn.get("scheme") in ("https", "wss")
    expect = host if port is None or port == (443 if secure else 80) else f"{host}:{port}"
    return got != expect


def judge_h1(scn, out):
    if out.get("result", "").startswith(("panic", "crash")):
        return True
    if "input_error" in out:
        return None
    cv = int(scn["conn_version"])
    if cv >= H2:
        orig = (scn["scheme"] + "://" if "scheme" in scn else "") + scn.get("authority", "") + (scn.get("pq", "") or ("/" if "scheme" in scn else ""))
        return out.get("uri") != orig
    orig = (scn["scheme"] + "://" if "scheme" in scn else "") + scn.get("authority", "") + (scn.get("pq", "") or ("/" if "scheme" in scn else ""))
    if scn["method"] == "CONNECT":
        return out.get("uri") != (scn["authority"] if "authority" in scn else orig)
    if "scheme" not in scn:
        return out.get("uri") != orig
    return out.get("uri") != (scn.get("pq") or "/")


def judge_h2(scn, out):
    if out.get("result", "").startswith(("panic", "crash")):
        return True
    if "input_error" in out:
        return None
    on_h2 = int(scn["conn_version"]) == H2
    if on_h2 and scn["method"] == "CONNECT":
        return not out.get("result", "").startswith("err")
    if out.get("result") != "ok":
        return True
    bad = False
    for h in ["host", "connection", "proxy-connection", "keep-alive", "transfer-encoding", "upgrade"]:
        present = ("header." + h) in out
        bad |= present != (("header." + h) in scn and not on_h2)
    bad |= (("header.content-length") in out) != (("header.content-length") in scn)
    if on_h2:
        bad |= out.get("version") != "HTTP/2.0"
    return bad


class HyperSenderV:
    """hyper::client::conn::http{1,2}::SendRequest<B>: records what it is asked to send.  Contract taken
    from hyper 1.x proto/h1/role.rs: the HTTP/1 encoder only knows HTTP/1.0 and HTTP/1.1 and panics
    ("unexpected request version") on anything else."""

    def __init__(self, kind):
        self.kind = kind
        self.sent = []


@model("SendRequest::send_request", doc="hyper client SendRequest::send_request: records the request; the HTTP/1 sender panics (in the connection task) for a version other than HTTP/1.0 / HTTP/1.1")
def _hyper_send(ctx, a, c):
    from interp import Panic
    snd = deref(ctx, a[0])
    if not isinstance(snd, HyperSenderV):
        raise Inconclusive("send_request on " + repr(snd))
    req = a[1]
    snd.sent.append(req)
    ver = req.version.v
    if snd.kind == "h1" and ctx.branch(z3.And(ver != VERSIONS["HTTP_10"], ver != VERSIONS["HTTP_11"]), "version unknown to hyper's HTTP/1 encoder"):
        raise Panic("hyper h1 encoder: unexpected request version")
    return Opaque("hyper response future")


def send_request_obligation(prog, name, panic_only):
    f_send = prog.find_one(r"connection::<impl at src/client/conn/connection\.rs:\d+:\d+: \d+:\d+>::send_request$", r"&mut HttpConnection<")

    def run(ctx):
        kind = ctx.choose([(True, "h1"), (True, "h2")], "connection protocol")
        ver = z3.BitVec("version", 8)
        ctx.assume(z3.ULE(ver, 4))
        snd = HyperSenderV(kind)
        ctx.snd, ctx.ver = snd, ver
        conn = Agg("struct:HttpConnection", [Enum("InnerConnection", "H2" if kind == "h2" else "H1", 0 if kind == "h2" else 1, [snd])])
        req = RequestV(z3.BitVec("method", 8), Opaque("uri"), ver, HeaderMapV())
        return ctx.exec_fn(f_send, [Ref(Cell(conn, "conn")), req])

    def check(p):
        if p.outcome == "panic":
            return [("sending a request with this version panics in the connection task: " + str(p.value)[:70], False)]
        if panic_only:
            return [("witness:reach", z3.BoolVal(True))]
        snd = p.ctx.snd
        want = VERSIONS["HTTP_2"] if snd.kind == "h2" else VERSIONS["HTTP_11"]
        props = [("the request is handed to hyper exactly once", len(snd.sent) == 1)]
        if snd.sent:
            props.append((f"the request handed to the {snd.kind} connection carries that connection's version", snd.sent[0].version.v == want))
        props.append(("witness:reach", z3.BoolVal(True)))
        return props

    def extract(p, m):
        v = m.eval(p.ctx.ver, model_completion=True).as_long()
        return {"family": "client_send_version", "version": {0: "0.9", 1: "1.0", 2: "1.1", 3: "2", 4: "3"}.get(v, "1.1"), "conn": p.ctx.snd.kind}

    def judge(scn, out):
        if out.get("result", "").startswith(("panic", "crash")) or int(out.get("panics", "0")) > 0:
            return True
        if "server_saw" not in out:
            return None
        return out["server_saw"] != ("HTTP/2.0" if scn.get("conn") == "h2" else "HTTP/1.1")

    return {"name": name, "family": "send_request_version", "funcs": ["<HttpConnection<B> as Connection<B>>::send_request"],
            "bound": "all five http::Version constants x HTTP/1 or HTTP/2 connection", "doc": "whatever version the caller's request carries, hyper receives the connection's own version (and therefore never one its HTTP/1 encoder rejects)",
            "run": run, "check": check, "crosscheck": False, "cex_extract": extract, "judge": judge}


def obligations(prog, src, tier, seed):
    obs = []
    obs.append(send_request_obligation(prog, "c13_send_request_version", False))
    f_set = prog.find_one(r"^set_host_header$")

    def run_set(ctx):
        req = mk_request(ctx)
        ctx.exec_fn(f_set, [Ref(Cell(req, "req"))])

    obs.append({"name": "c13_set_host_header", "family": "host_header", "funcs": ["service::host::set_host_header", "service::host::get_non_default_port", "service::host::is_schema_secure"],
                "bound": "host <= 6 chars or bracketed IPv6 <= 8, scheme in {http,https,ws,wss,ftp} or none, port any u16 or none, Host preset yes/no",
                "doc": "for all URIs: Host inserted iff URI has a host and none was supplied; value = host [':' port unless default for the scheme]; never panics",
                "cex_extract": scenario("host_request"), "judge": lambda scn, out: judge_host(dict(scn, version="2"), out),
                "run": run_set, "check": lambda p: ([("no panic", False)] if p.outcome == "panic" else host_spec(p.ctx, z3.BoolVal(True)) + [("URI untouched", uri_unchanged(p.ctx))])})

    # ---- the two tower services -----------------------------------------------------------------
    calls = prog.find(r"host::<impl at src/service/host\.rs:\d+:\d+: \d+:\d+>::call$")
    f_call_req = [f for f in calls if "ExecuteRequest" not in f.args[1][1]][0]
    f_call_exec = [f for f in calls if "ExecuteRequest" in f.args[1][1]][0]

    def run_call_req(ctx):
        req = mk_request(ctx)
        svc = SvcV()
        ctx.svc = svc
        layer = Agg("struct:SetHostHeader", [svc])
        ctx.exec_fn(f_call_req, [Ref(Cell(layer, "layer")), req])

    def check_call_req(p):
        if p.outcome == "panic":
            return [("no panic", False)]
        ctx = p.ctx
        props = [("inner service called exactly once with the request", len(ctx.svc.calls) == 1 and ctx.svc.calls[0] is ctx.req)]
        return props + host_spec(ctx, z3.ULT(ctx.req.version.v, H2))

    obs.append({"name": "c13_set_host_layer_request", "family": "host_layer", "funcs": ["<SetHostHeader<S> as Service<Request<B>>>::call", "service::host::set_host_header"],
                "bound": "as c13_set_host_header x request version in all five http::Version constants",
                "doc": "Host inserted iff request version < HTTP/2 (and the conditions of set_host_header); request forwarded once", "run": run_call_req, "check": check_call_req,
                "cex_extract": scenario("host_request"), "judge": judge_host})

    def run_call_exec(ctx):
        req = mk_request(ctx)
        svc = SvcV()
        ctx.svc = svc
        cv = z3.BitVec("conn_version", 8)
        ctx.assume(z3.ULE(cv, 4))
        ctx.cv = cv
        ex = Agg("struct:ExecuteRequest", [ConnV(cv), req])
        ctx.ex = ex
        layer = Agg("struct:SetHostHeader", [svc])
        ctx.exec_fn(f_call_exec, [Ref(Cell(layer, "layer")), ex])

    def check_call_exec(p):
        if p.outcome == "panic":
            return [("no panic", False)]
        ctx = p.ctx
        props = [("inner service called exactly once", len(ctx.svc.calls) == 1)]
        return props + host_spec(ctx, z3.ULT(ctx.cv, H2))

    obs.append({"name": "c13_set_host_layer_execute", "family": "host_layer", "funcs": ["<SetHostHeader<S> as Service<ExecuteRequest<C,B>>>::call", "service::client::ExecuteRequest::{connection,request_mut}"],
                "bound": "as above x connection version in all five constants (request version independent)",
                "doc": "below the pool the CONNECTION's version decides: Host inserted iff connection version < HTTP/2", "run": run_call_exec, "check": check_call_exec,
                "cex_extract": scenario("host_execute"), "judge": judge_host})

    # ---- HTTP/1 request target -------------------------------------------------------------------
    f_h1 = prog.find_one(r"^check_http1_request$")

    def run_h1(ctx):
        req = mk_request(ctx, shape_pq=True)
        cv = z3.BitVec("conn_version", 8)
        ctx.assume(z3.ULE(cv, 4))
        ctx.cv = cv
        # caller precondition of every public path that reaches this layer: the pool key / connector
        # needed an absolute URI (scheme + authority) to connect
        if ctx.precond_absolute:
            ctx.assume(ctx.u.has_scheme)
        ex = Agg("struct:ExecuteRequest", [ConnV(cv), req])
        return ctx.exec_fn(f_h1, [ex])

    def check_h1(p):
        if p.outcome == "panic":
            return [("no panic", False)]
        ctx = p.ctx
        u = ctx.u
        now = ctx.req.uri.v
        res = p.value
        props = [("returns Ok", isinstance(res, Enum) and res.variant == "Ok")]
        h1 = z3.ULT(ctx.cv, H2)
        is_connect = ctx.req.method.v == CONNECT
        txt = uri_text(ctx, now)
        # origin-form: path-and-query only, "/" when empty; authority-form for CONNECT
        origin = z3.If(z3.Length(u.pq) == 0, z3.StringVal("/"), u.pq)
        expect = z3.If(h1, z3.If(z3.And(is_connect, u.has_auth), u.auth.as_str_model(ctx), z3.If(z3.And(u.has_scheme, z3.Not(is_connect)), origin, uri_text(ctx, u))), uri_text(ctx, u))
        props.append(("request target has the form required by the connection's protocol", txt == expect))
        props.append(("headers untouched", ctx.req.headers.v.cell("host").v is None or ctx.preset["host"]))
        return props

    def mk_h1(pre):
        def r(ctx):
            ctx.precond_absolute = pre
            return run_h1(ctx)
        return r

    obs.append({"name": "c13_http1_request_target_absolute", "family": "http1_target",
                "funcs": ["service::http::http1::check_http1_request", "http1::origin_form", "http1::authority_form", "http1::absolute_form"],
                "bound": "absolute URIs (scheme+authority) as sym_uri, method symbolic (CONNECT or not), connection version symbolic, path_and_query <= 4 chars",
                "doc": "HTTP/1 connection: non-CONNECT => origin-form with path+query preserved, empty path => '/'; CONNECT => authority-form; HTTP/2 connection: URI unchanged",
                "run": mk_h1(True), "check": check_h1, "cex_extract": scenario("http1"), "judge": judge_h1})

    obs.append({"name": "c13_http1_request_target_any_form", "family": "http1_target",
                "funcs": ["service::http::http1::check_http1_request", "http1::origin_form", "http1::authority_form", "http1::absolute_form"],
                "bound": "every URI form http::Uri can hold (absolute, authority-form, origin-form, asterisk), method and connection version symbolic",
                "doc": "as above, and a URI that is already relative (origin-form / asterisk-form) is left exactly as it is",
                "run": mk_h1(False), "check": check_h1, "cex_extract": scenario("http1"), "judge": judge_h1})

    # ---- HTTP/2 sanitising -----------------------------------------------------------------------
    f_h2 = prog.find_one(r"^check_http2_request$")
    HDRS = ["host", "connection", "proxy-connection", "keep-alive", "transfer-encoding", "upgrade", "content-length"]

    def run_h2(ctx):
        req = mk_request(ctx, headers=HDRS)
        cv = z3.BitVec("conn_version", 8)
        ctx.assume(z3.ULE(cv, 4))
        ctx.cv = cv
        ex = Agg("struct:ExecuteRequest", [ConnV(cv), req])
        return ctx.exec_fn(f_h2, [ex])

    def check_h2(p):
        if p.outcome == "panic":
            return [("no panic", False)]
        ctx = p.ctx
        res = p.value
        on_h2 = ctx.cv == H2
        is_connect = ctx.req.method.v == CONNECT
        hm = ctx.req.headers.v
        props = []
        if isinstance(res, Enum) and res.variant == "Err":
            props.append(("only CONNECT on an HTTP/2 connection is rejected", z3.And(on_h2, is_connect)))
            return props
        props.append(("CONNECT on HTTP/2 must be rejected", z3.Not(z3.And(on_h2, is_connect))))
        props.append(("version is HTTP/2 on an HTTP/2 connection, untouched otherwise", z3.If(on_h2, ctx.req.version.v == H2, ctx.req.version.v == z3.BitVec("version", 8))))
        for h in HDRS:
            present_now = hm.cell(h).v is not None
            if h == "content-length":
                props.append(("unrelated header kept", present_now == ctx.preset[h]))
            else:
                if ctx.preset[h]:
                    props.append((f"connection-specific header `{h}` removed on HTTP/2 and kept on HTTP/1", (z3.Not(on_h2) if present_now else on_h2)))
                else:
                    props.append((f"header `{h}` not invented", not present_now))
        props.append(("URI untouched", uri_unchanged(ctx)))
        return props

    obs.append({"name": "c13_http2_sanitise", "family": "http2_checks", "funcs": ["service::http::http2::check_http2_request"],
                "bound": "presence of each of 7 headers (Host, 5 connection-specific, Content-Length) x method x connection version, all symbolic/enumerated", "max_paths": 6000,
                "doc": "HTTP/2 connection: version set to HTTP/2, Host and the five connection-specific headers removed, others kept, CONNECT => Err(InvalidMethod); HTTP/1: untouched",
                "run": run_h2, "check": check_h2, "crosscheck": False, "cex_extract": scenario("http2", HDRS), "judge": judge_h2})
    return obs
