"""Models for the collections / sync primitives the connection pool uses, plus a mock connection."""
import re
import z3

from interp import Agg, Cell, Enum, FnItem, Inconclusive, Opaque, Panic, Ref, UNIT, is_z3, none, some, strip_generics
from models import DOC, MODELS, OneshotSenderV, VecDequeV, call_closure, clone_value, deref, err, is_some, model, need_opt, ok


def val_eq(ctx, a, b):
    """structural equality of two modelled values -> z3 Bool"""
    a, b = deref(ctx, a), deref(ctx, b)
    if is_z3(a) and is_z3(b):
        return a == b
    if isinstance(a, Enum) and isinstance(b, Enum):
        if a.idx != b.idx:
            return z3.BoolVal(False)
        return z3.And(*[val_eq(ctx, x, y) for x, y in zip(a.f, b.f)]) if a.f else z3.BoolVal(True)
    if isinstance(a, Agg) and isinstance(b, Agg):
        if len(a.f) != len(b.f):
            return z3.BoolVal(False)
        return z3.And(*[val_eq(ctx, x, y) for x, y in zip(a.f, b.f)]) if a.f else z3.BoolVal(True)
    raise Inconclusive(f"equality of {a!r} and {b!r}")


class HashMapV:
    """std::collections::HashMap / HashSet as an association list; lookups fork on key equality"""

    def __init__(self):
        self.entries = []  # [(key, Cell)]

    def find(self, ctx, key):
        for i, (k, cell) in enumerate(self.entries):
            if ctx.branch(val_eq(ctx, k, key), "hash key equal"):
                return i
        return None

    def mir_drop(self, ctx):
        ents, self.entries = self.entries, []
        for _k, c in ents:
            if c.v is not None and not is_z3(c.v):
                ctx.drop_value(c.v)

    def clone_model(self, ctx):
        n = HashMapV()
        n.entries = [(k, Cell(clone_value(ctx, c.v), "hm")) for k, c in self.entries]
        return n


def hm_of(ctx, v):
    m = deref(ctx, v)
    if not isinstance(m, HashMapV):
        raise Inconclusive("expected HashMap/HashSet, got " + repr(m))
    return m


@model("HashMap::new", "HashSet::new", "<HashMap as Default>::default", "<HashSet as Default>::default", doc="std: empty map / set")
def _hm_new(ctx, a, c):
    return HashMapV()


@model("HashMap::get_mut", "HashMap::get", doc="std: reference to the value stored for an equal key")
def _hm_get(ctx, a, c):
    m = hm_of(ctx, a[0])
    i = m.find(ctx, a[1])
    return none() if i is None else some(Ref(m.entries[i][1]))


@model("HashMap::remove", doc="std: removes and returns the value stored for an equal key")
def _hm_remove(ctx, a, c):
    m = hm_of(ctx, a[0])
    i = m.find(ctx, a[1])
    if i is None:
        return none()
    return some(m.entries.pop(i)[1].v)


@model("HashMap::insert", doc="std: inserts, returning the previous value for an equal key")
def _hm_insert(ctx, a, c):
    m = hm_of(ctx, a[0])
    i = m.find(ctx, a[1])
    if i is None:
        m.entries.append((a[1], Cell(a[2], "hm")))
        return none()
    old = m.entries[i][1].v
    m.entries[i][1].v = a[2]
    return some(old)


@model("HashMap::contains_key", "HashSet::contains", doc="std")
def _hm_contains(ctx, a, c):
    return z3.BoolVal(hm_of(ctx, a[0]).find(ctx, a[1]) is not None)


@model("HashSet::insert", doc="std: true iff the value was not present")
def _hs_insert(ctx, a, c):
    m = hm_of(ctx, a[0])
    if m.find(ctx, a[1]) is None:
        m.entries.append((a[1], Cell(UNIT, "hs")))
        return z3.BoolVal(True)
    return z3.BoolVal(False)


@model("HashSet::remove", doc="std: true iff the value was present")
def _hs_remove(ctx, a, c):
    m = hm_of(ctx, a[0])
    i = m.find(ctx, a[1])
    if i is None:
        return z3.BoolVal(False)
    m.entries.pop(i)
    return z3.BoolVal(True)


@model("HashMap::entry", doc="std: entry API")
def _hm_entry(ctx, a, c):
    return Agg("hm_entry", [hm_of(ctx, a[0]), a[1]])


def _default_for(ctx, callee):
    """Default::default() of the value type named in `Entry::<'_, K, V>::or_default`"""
    m = re.search(r"Entry::<'_, [^,]+, (.*)>::or_default", callee)
    ty = m.group(1) if m else ""
    if ty.startswith("VecDeque") or ty.startswith("std::collections::VecDeque"):
        return VecDequeV()
    if ty.startswith("IdleConnections") or "IdleConnections<" in ty:
        return ctx.call("<IdleConnections<C, B> as Default>::default", [])
    raise Inconclusive("or_default for " + ty)


@model("Entry::or_default", doc="std: value for the key, inserting Default::default() if absent")
def _entry_or_default(ctx, a, c):
    m, key = a[0].f
    i = m.find(ctx, key)
    if i is None:
        m.entries.append((key, Cell(_default_for(ctx, c), "hm")))
        i = len(m.entries) - 1
    return Ref(m.entries[i][1])


_prev_or_insert_with = MODELS["Entry::or_insert_with"]


@model("Entry::or_insert_with", doc="std / http: existing value kept, else the closure's value is inserted")
def _entry_or_insert_with2(ctx, a, c):
    e = a[0]
    if isinstance(e, Agg) and e.kind == "hm_entry":
        m, key = e.f
        i = m.find(ctx, key)
        if i is None:
            m.entries.append((key, Cell(call_closure(ctx, a[1], []), "hm")))
            i = len(m.entries) - 1
        return Ref(m.entries[i][1])
    return _prev_or_insert_with(ctx, a, c)


# ---- Vec -------------------------------------------------------------------------------------------
class VecV:
    def __init__(self, items=()):
        self.items = list(items)

    def mir_drop(self, ctx):
        items, self.items = self.items, []
        for x in items:
            if x is not None and not is_z3(x):
                ctx.drop_value(x)

    def clone_model(self, ctx):
        return VecV([clone_value(ctx, x) for x in self.items])


def vec_of(ctx, v):
    x = deref(ctx, v)
    if not isinstance(x, VecV):
        raise Inconclusive("expected Vec, got " + repr(x))
    return x


@model("Vec::new", "<Vec as Default>::default", doc="alloc")
def _vec_new(ctx, a, c):
    return VecV()


@model("Vec::push", doc="alloc")
def _vec_push(ctx, a, c):
    vec_of(ctx, a[0]).items.append(a[1])
    return UNIT


@model("Vec::pop", doc="alloc: removes the last element")
def _vec_pop(ctx, a, c):
    v = vec_of(ctx, a[0])
    return some(v.items.pop()) if v.items else none()


@model("Vec::len", doc="alloc")
def _vec_len(ctx, a, c):
    return z3.BitVecVal(len(vec_of(ctx, a[0]).items), 64)


@model("Vec::is_empty", doc="alloc")
def _vec_is_empty(ctx, a, c):
    return z3.BoolVal(not vec_of(ctx, a[0]).items)


@model("Vec::clear", doc="alloc: drops every element")
def _vec_clear(ctx, a, c):
    v = vec_of(ctx, a[0])
    for x in v.items:
        ctx.drop_value(x)
    v.items = []
    return UNIT


# ---- time ------------------------------------------------------------------------------------------
@model("Instant::now", doc="std::time: monotone clock; the harness sets ctx.now (z3 Int, nanoseconds)")
def _instant_now(ctx, a, c):
    return ctx.now


@model("Instant::elapsed", doc="std::time: now - earlier")
def _instant_elapsed(ctx, a, c):
    return ctx.now - deref(ctx, a[0])


@model("Instant::checked_sub", doc="std::time: now - duration, None when it would precede the clock's origin")
def _instant_checked_sub(ctx, a, c):
    t, d = deref(ctx, a[0]), deref(ctx, a[1])
    if ctx.branch(t - d >= 0, "instant - duration representable"):
        return some(t - d)
    return none()


@model("<Instant as PartialOrd>::lt", doc="std::time")
def _instant_lt(ctx, a, c):
    return deref(ctx, a[0]) < deref(ctx, a[1])


def _time_cmp(op):
    def f(ctx, a, c):
        x, y = deref(ctx, a[0]), deref(ctx, a[1])
        return {"lt": x < y, "le": x <= y, "gt": x > y, "ge": x >= y}[op]
    return f


for _op in ("lt", "le", "gt", "ge"):
    model(f"<Duration as PartialOrd>::{_op}", *( [f"<Instant as PartialOrd>::{_op}"] if _op != "lt" else []),
          doc="std::time: time quantities are integers (nanoseconds); comparison is integer comparison")(_time_cmp(_op))


@model("Duration::as_secs_f64", doc="std::time: seconds as a real number")
def _as_secs_f64(ctx, a, c):
    return z3.ToReal(deref(ctx, a[0])) / z3.RealVal(1000000000)


@model("Duration::as_millis", doc="std::time: whole milliseconds (truncating), as u128")
def _as_millis(ctx, a, c):
    return deref(ctx, a[0]) / 1000000  # stays an integer (see interp.binop)


@model("Duration::as_micros", doc="std::time: whole microseconds (truncating), as u128")
def _as_micros(ctx, a, c):
    return deref(ctx, a[0]) / 1000


@model("Duration::as_nanos", doc="std::time: nanoseconds, as u128")
def _as_nanos(ctx, a, c):
    return deref(ctx, a[0])


@model("Duration::is_zero", doc="std::time")
def _dur_is_zero(ctx, a, c):
    return deref(ctx, a[0]) == 0


# ---- Arc<Mutex<T>> / Weak --------------------------------------------------------------------------
class SharedV:
    """Arc<parking_lot::Mutex<T>>: one cell, a lock flag, liveness of the strong side"""

    def __init__(self, value, name="shared"):
        self.cell = Cell(value, name)
        self.locked = False
        self.alive = True

    def clone_model(self, ctx):
        return self


class WeakV:
    def __init__(self, shared):
        self.shared = shared

    def clone_model(self, ctx):
        return self


class GuardV:
    def __init__(self, shared):
        self.shared = shared

    def mir_drop(self, ctx):
        self.shared.locked = False


@model("Arc::new", doc="alloc")
def _arc_new(ctx, a, c):
    return a[0] if isinstance(a[0], SharedV) else SharedV(a[0])


@model("Mutex::new", doc="parking_lot")
def _mutex_new(ctx, a, c):
    return SharedV(a[0])


@model("Arc::downgrade", doc="alloc: weak handle")
def _arc_downgrade(ctx, a, c):
    return WeakV(deref(ctx, a[0]))


@model("Weak::upgrade", doc="alloc: Some while a strong handle exists")
def _weak_upgrade(ctx, a, c):
    w = deref(ctx, a[0])
    return some(w.shared) if w.shared.alive else none()


@model("<Weak as Clone>::clone", doc="alloc")
def _weak_clone(ctx, a, c):
    return deref(ctx, a[0])


@model("<Arc as Deref>::deref", doc="alloc: Arc<T> derefs to the shared T")
def _arc_deref(ctx, a, c):
    return Ref(Cell(deref(ctx, a[0]), "arc-target"))


def _lock(ctx, sh):
    if not isinstance(sh, SharedV):
        raise Inconclusive("lock on " + repr(sh))
    if sh.locked:
        raise Panic("DEADLOCK: parking_lot::Mutex locked again by the thread that already holds it")
    sh.locked = True
    return GuardV(sh)


@model("Mutex::lock", "Mutex::lock_arc", doc="parking_lot: exclusive guard (single-threaded model: locking a mutex the same thread holds is a deadlock, reported as a panic)")
def _mutex_lock(ctx, a, c):
    return _lock(ctx, deref(ctx, a[0]))


@model("Mutex::try_lock_arc", "Mutex::try_lock", doc="parking_lot: Some(guard) if free; may also fail although this thread does not hold the mutex (another thread may: the contention is a symbolic choice)")
def _mutex_try_lock(ctx, a, c):
    sh = deref(ctx, a[0])
    if sh.locked:
        return none()
    contended = ctx.fresh_bool("mutex_held_by_another_thread")
    if ctx.branch(contended, "try_lock contended"):
        return none()
    return some(_lock(ctx, sh))


@model("<MutexGuard as Deref>::deref", "<MutexGuard as DerefMut>::deref_mut", "<ArcMutexGuard as Deref>::deref", "<ArcMutexGuard as DerefMut>::deref_mut", doc="parking_lot: guard derefs to the protected value")
def _guard_deref(ctx, a, c):
    g = deref(ctx, a[0])
    if not isinstance(g, GuardV):
        raise Inconclusive("guard deref on " + repr(g))
    return Ref(g.shared.cell)


# ---- tokio ----------------------------------------------------------------------------------------
class OneshotReceiverV:
    def __init__(self, sender):
        self.sender = sender

    def mir_drop(self, ctx):
        self.sender.alive = z3.BoolVal(False)


@model("oneshot::channel", "tokio::sync::oneshot::channel", doc="tokio: connected (Sender, Receiver) pair")
def _oneshot_channel(ctx, a, c):
    n = len(getattr(ctx, "channels", []))
    s = OneshotSenderV(z3.BoolVal(True), tag=f"ch{n}")
    r = OneshotReceiverV(s)
    ctx.channels = getattr(ctx, "channels", []) + [(s, r)]
    return Agg("tuple", [s, r])


@model("tokio::spawn", "task::spawn", "spawn", doc="tokio: the future is queued as a background task (the harness decides when it is polled or dropped)")
def _spawn(ctx, a, c):
    ctx.spawned = getattr(ctx, "spawned", []) + [a[0]]
    return Opaque("JoinHandle")


@model("Span::new", doc="tracing: disabled span")
def _span_new(ctx, a, c):
    return Opaque("Span::none")


@model("Box::pin", "Box::new", doc="alloc: boxing preserves the value")
def _box(ctx, a, c):
    return a[0]


@model("AtomicUsize::fetch_add", "Atomic::fetch_add", doc="core: debug-only checkout id counter; value irrelevant")
def _fetch_add(ctx, a, c):
    return z3.BitVecVal(1, 64)


@model("NonZero::checked_add", doc="core: None on overflow")
def _nz_checked_add(ctx, a, c):
    s = a[0] + a[1]
    if ctx.branch(z3.UGE(s, a[0]), "no overflow"):
        return some(s)
    return none()


@model("NonZero::new", doc="core: None for zero")
def _nz_new(ctx, a, c):
    if ctx.branch(a[0] != 0, "non-zero"):
        return some(a[0])
    return none()


# ---- mock poolable connection -------------------------------------------------------------------------
class PConnV:
    """mock PoolableConnection: identity, shareable?, open? (z3 Bool), readiness script"""

    def __init__(self, cid, share, is_open, ready=("ok",)):
        self.cid = cid
        self.share = share
        self.is_open = is_open
        self.ready = list(ready)
        self.ready_polls = 0
        self.dropped = False
        self.clones = 0
        self.origin = self

    def mir_drop(self, ctx):
        self.dropped = True
        ctx.events.append(("conn_dropped", self.cid))


@model("<C as PoolableConnection>::reuse", "PoolableConnection::reuse", doc="mock connection: Some(clone) iff shareable")
def _pc_reuse(ctx, a, c):
    x = deref(ctx, a[0])
    if not isinstance(x, PConnV):
        raise Inconclusive("reuse on " + repr(x))
    if not x.share:
        return none()
    x.origin.clones += 1
    y = PConnV(x.cid, True, x.is_open, x.ready)
    y.origin = x.origin
    return some(y)


@model("<C as PoolableConnection>::is_open", "PoolableConnection::is_open", doc="mock connection: symbolic openness")
def _pc_is_open(ctx, a, c):
    return deref(ctx, a[0]).is_open


@model("<C as PoolableConnection>::can_share", "PoolableConnection::can_share", doc="mock connection")
def _pc_can_share(ctx, a, c):
    return z3.BoolVal(deref(ctx, a[0]).share)


@model("<C as Connection>::poll_ready", "Connection::poll_ready", doc="mock connection: scripted readiness per poll: pending | ok | err")
def _pc_poll_ready(ctx, a, c):
    x = deref(ctx, a[0])
    x.ready_polls += 1
    st = x.ready.pop(0) if x.ready else "pending"
    x.last_ready = st
    if st == "pending":
        return Enum("Poll", "Pending", 1, [])
    if st == "ok":
        return Enum("Poll", "Ready", 0, [ok(UNIT)])
    return Enum("Poll", "Ready", 0, [err(Opaque("connection error"))])


# ---- Vec as a slice: iteration, filter, count ------------------------------------------------------------
@model("<Vec as Deref>::deref", "<Vec as DerefMut>::deref_mut", "Vec::as_slice", doc="alloc: a Vec derefs to the slice of its elements")
def _vec_deref(ctx, a, c):
    return a[0]


class VecIterV:
    def __init__(self, items):
        self.items = list(items)
        self.pos = 0
        self.pred = None


_prev_slice_iter = MODELS.get("slice::iter")


@model("slice::iter", "<[]>::iter", "[]::iter", "Vec::iter", doc="core: iterator over element references (Vec model or array aggregate)")
def _slice_iter_any(ctx, a, c):
    x = deref(ctx, a[0])
    if isinstance(x, VecV):
        return VecIterV([Ref(Cell(v, "vec-elem")) for v in x.items])
    return _prev_slice_iter(ctx, a, c)


_prev_iter_filter = MODELS.get("Iterator::filter")


@model("Iterator::filter", "<Iter as Iterator>::filter", doc="core: lazily filtered iterator (only `count` is modelled on it)")
def _iter_filter(ctx, a, c):
    it = a[0]
    if not isinstance(it, VecIterV):
        if _prev_iter_filter is not None:
            return _prev_iter_filter(ctx, a, c)
        raise Inconclusive("filter on " + repr(it))
    it.pred = a[1]
    return it


@model("Iterator::count", "<Filter as Iterator>::count", "<Iter as Iterator>::count", doc="core: number of (remaining) items, the filter predicate evaluated symbolically per item")
def _iter_count(ctx, a, c):
    it = a[0]
    if not isinstance(it, VecIterV):
        raise Inconclusive("count on " + repr(it))
    total = z3.BitVecVal(0, 64)
    for r in it.items[it.pos:]:
        if it.pred is None:
            total = total + 1
            continue
        keep = call_closure(ctx, it.pred, [Ref(Cell(r, "filter-arg"))])
        total = total + z3.If(keep, z3.BitVecVal(1, 64), z3.BitVecVal(0, 64))
    return z3.simplify(total)


@model("[]::last", "slice::last", doc="core: reference to the last element, None when empty")
def _slice_last(ctx, a, c):
    x = deref(ctx, a[0])
    if isinstance(x, VecV):
        return some(Ref(Cell(x.items[-1], "vec-last"))) if x.items else none()
    if isinstance(x, Agg):
        return some(Ref(Cell(x.f[-1], "last"))) if x.f else none()
    raise Inconclusive("last() on " + repr(x))
