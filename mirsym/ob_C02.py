"""C02: pool step contracts (see ob_pool.py)"""
import ob_pool


def obligations(prog, src, tier, seed):
    obs = ob_pool.obligations(prog, src, tier, seed, "C02", select=['pool_push', 'pool_release_path', 'pool_register'])
    import os
    import ob_sched
    depth = int(os.environ.get("SCHED_DEPTH", "4" if tier == "quick" else "6"))
    obs += ob_sched.obligations(prog, src, tier, seed, "C02", n_req=2, depth=depth, classes=('C02',))
    return obs
