"""C02: pool step contracts (see ob_pool.py)"""
import ob_pool


def obligations(prog, src, tier, seed):
    obs = ob_pool.obligations(prog, src, tier, seed, "C02", select=['pool_push', 'pool_release_path', 'pool_register'])
    return obs
