"""C16 obligations: address preference sorting is a permutation that puts the preferred family first."""
import z3

from interp import Agg, Cell, Enum, Ref, none, some
from models import VecDequeV


def expected_order(fams, prefer):
    pref6 = prefer != "v4"
    n = len(fams)
    fp = next((i for i in range(n) if (fams[i] == "6") == pref6), None)
    fo = next((i for i in range(n) if (fams[i] == "6") != pref6), None)
    return [i for i in (fp, fo) if i is not None] + [i for i in range(n) if i not in (fp, fo)]


def judge_sort(scn, out):
    """concrete reference; True = the native run violates the property"""
    if out.get("result", "").startswith(("panic", "crash")):
        return True
    if "input_error" in out:
        return None
    exp = ",".join(str(i) for i in expected_order(scn["families"], scn["prefer"]))
    bad = out.get("order") != exp
    if "port" in scn:
        bad |= out.get("ports") != ",".join([scn["port"]] * len(scn["families"]))
    return bad


def obligations(prog, src, tier, seed):
    obs = []
    f_sort = prog.find_one(r"dns::<impl at src/client/conn/dns\.rs:\d+:\d+: \d+:\d+>::sort_preferred$")
    f_setp = prog.find_one(r"dns::<impl at src/client/conn/dns\.rs:\d+:\d+: \d+:\d+>::set_port$")
    f_bind = prog.find_one(r"dns::<impl at src/client/conn/dns\.rs:\d+:\d+: \d+:\d+>::from_binding$")
    N = 5 if tier == "quick" else 7

    def build(ctx, n_max):
        n = ctx.choose([(True, k) for k in range(0, n_max + 1)], "length")
        fams = []
        items = []
        for i in range(n):
            v6 = ctx.choose([(True, False), (True, True)], f"family[{i}]")
            fams.append(v6)
            # payload: (address id, port) both symbolic: duplicates allowed
            addr = z3.BitVec(f"addr{i}", 32)
            port = z3.BitVec(f"port{i}", 16)
            items.append(Enum("SocketAddr", "V6" if v6 else "V4", 1 if v6 else 0, [Agg("addr", [addr, port])]))
        ctx.n, ctx.fams, ctx.items = n, fams, list(items)
        dq = VecDequeV(items)
        ctx.dq = dq
        return Agg("struct:SocketAddrs", [dq])

    def run_sort(ctx):
        addrs = build(ctx, N)
        pref = ctx.choose([(True, "none"), (True, "v4"), (True, "v6")], "prefer")
        ctx.pref = pref
        pv = none() if pref == "none" else some(Enum("IpVersion", "V4" if pref == "v4" else "V6", 0 if pref == "v4" else 1, []))
        ctx.exec_fn(f_sort, [Ref(Cell(addrs, "addrs")), pv])

    def check_sort(p):
        if p.outcome == "panic":
            return [("sort_preferred panics: " + str(p.value)[:60], False)]
        ctx = p.ctx
        n, fams, items = ctx.n, ctx.fams, ctx.items
        pref6 = ctx.pref != "v4"
        first_pref = next((i for i in range(n) if fams[i] == pref6), None)
        first_other = next((i for i in range(n) if fams[i] != pref6), None)
        expect = [i for i in (first_pref, first_other) if i is not None] + [i for i in range(n) if i not in (first_pref, first_other)]
        got = ctx.dq.values()
        props = [("no address lost or duplicated (length preserved)", len(got) == n)]
        if len(got) == n:
            for k, e in enumerate(expect):
                props.append((f"position {k} holds the address the specification puts there (preferred family first, other family second, rest in resolver order)", got[k] is items[e]))
        props.append(("witness:reach", z3.BoolVal(True)))
        return props

    obs.append({"name": "c16_sort_preferred", "family": "sort_preferred", "funcs": ["client::conn::dns::SocketAddrs::sort_preferred", "<SocketAddr as IpVersionExt>::version"],
                "bound": f"every list of 0..={N} addresses (quick 5 / thorough 7) over {{IPv4, IPv6}} in every family arrangement, payloads symbolic (duplicates allowed), all three preference settings; loop unrolled <= {N + 2}",
                "doc": "output = [first address of the preferred family (IPv6 unless IPv4 is preferred), first of the other family, remaining addresses in resolver order]: element identity per position, hence a permutation",
                "run": run_sort, "check": check_sort, "loop_bound": N + 3, "max_paths": 20000, "crosscheck": False,
                "cex_extract": lambda p, m: {"family": "sort_preferred", "families": "".join("6" if f else "4" for f in p.ctx.fams), "prefer": p.ctx.pref},
                "judge": judge_sort})

    def run_setp(ctx):
        addrs = build(ctx, 4)
        port = z3.BitVec("new_port", 16)
        ctx.port = port
        ctx.exec_fn(f_setp, [Ref(Cell(addrs, "addrs")), port])

    def check_setp(p):
        if p.outcome == "panic":
            return [("set_port panics", False)]
        ctx = p.ctx
        got = ctx.dq.values()
        props = [("length preserved", len(got) == ctx.n)]
        for k in range(min(len(got), ctx.n)):
            props.append((f"address {k} keeps its family", got[k].variant == ctx.items[k].variant))
            props.append((f"address {k} keeps its IP", got[k].f[0].f[0] == ctx.items[k].f[0].f[0]))
            props.append((f"address {k} carries the request's port", got[k].f[0].f[1] == ctx.port))
        return props

    obs.append({"name": "c16_set_port", "family": "set_port", "funcs": ["client::conn::dns::SocketAddrs::set_port"], "bound": "lists of 0..=4 addresses, port symbolic",
                "doc": "every address carries the port of the request URI, addresses and order unchanged", "run": run_setp, "check": check_setp, "loop_bound": 8, "crosscheck": False,
                "cex_extract": lambda p, m: {"family": "sort_preferred", "families": "".join("6" if f else "4" for f in p.ctx.fams), "prefer": "none", "port": "8080"}, "judge": judge_sort})

    def judge_bind(scn, out):
        # natively: TcpTransport::connect_to_addrs over two loopback listeners; which family was attempted first
        want = "4" if (scn.get("bound4") == "1" and scn.get("bound6") != "1") else "6"
        if "input_error" in out:
            return None
        firsts = [out.get("first_a"), out.get("first_b")]
        if any(f is None or str(f).startswith("err") for f in firsts):
            return False
        return any(f != want for f in firsts)

    def run_bind(ctx):
        h4 = ctx.choose([(True, False), (True, True)], "v4 bound")
        h6 = ctx.choose([(True, False), (True, True)], "v6 bound")
        ctx.h4, ctx.h6 = h4, h6
        return ctx.exec_fn(f_bind, [some(z3.BitVec("a4", 32)) if h4 else none(), some(z3.BitVec("a6", 128)) if h6 else none()])

    def check_bind(p):
        r = p.value
        ctx = p.ctx
        if not ctx.h4 and not ctx.h6:
            return [("no binding => no preference", r.variant == "None")]
        want = "V4" if (ctx.h4 and not ctx.h6) else "V6"
        return [("IPv4 is preferred only when an IPv4 and no IPv6 local address is bound", r.variant == "Some" and r.f[0].variant == want)]

    obs.append({"name": "c16_preference_from_binding", "family": "from_binding", "funcs": ["client::conn::dns::IpVersion::from_binding"], "bound": "all four bound-address combinations",
                "doc": "IPv6 unless only an IPv4 local address is bound", "run": run_bind, "check": check_bind, "crosscheck": False,
                "cex_extract": lambda p, m: {"family": "binding_pref", "bound4": "1" if p.ctx.h4 else "0", "bound6": "1" if p.ctx.h6 else "0"},
                "judge": judge_bind})
    return obs
