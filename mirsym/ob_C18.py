"""C18 obligations (E2): the transport dispatch wrapper `stream::core::Braid` and the three stream
wrappers under it (`stream::{tcp::TcpStream, unix::UnixStream, duplex::DuplexStream}`) hand every
operation to the tokio stream of the arm they hold - the same operation, the same arguments - and
return its result unchanged.  The tokio streams are the environment: a call into them is recorded."""
import z3

from interp import Agg, Cell, Enum, Opaque, Ref, none
from models import deref, model

OPS = ["poll_read", "poll_write", "poll_flush", "poll_shutdown", "poll_write_vectored", "is_write_vectored"]
TRAIT = {"poll_read": "AsyncRead"}


def _env(op):
    def f(ctx, a, callee):
        if not callee.strip().startswith("<tokio::"):
            # hyperdriver's own wrapper of the same name: run it from MIR
            fn = ctx.resolve(callee, a, None)
            if fn is None:
                from interp import Inconclusive
                raise Inconclusive("no MIR body for " + callee)
            return ctx.exec_fn(fn, a)
        ret = Opaque(f"result of tokio {op} #{len(ctx.io_calls)}")
        ctx.io_calls.append({"op": op, "callee": callee, "self": deref(ctx, a[0]), "args": list(a[1:]), "ret": ret})
        return ret
    return f


for _ty in ("TcpStream", "UnixStream", "DuplexStream"):
    for _op in OPS:
        model(f"<{_ty} as {TRAIT.get(_op, 'AsyncWrite')}>::{_op}", doc="environment: the tokio stream under the wrapper; the call (operation, receiver, arguments) is recorded, the result is an opaque value")(_env(_op))

ARMS = [("Tcp", 0, "struct:TcpStream"), ("Duplex", 1, "struct:DuplexStream"), ("Unix", 2, "struct:UnixStream")]


def judge_braid(scn, out):
    """True = the native run violates C18"""
    if out.get("result", "").startswith(("panic", "crash")):
        return True
    if "input_error" in out:
        return None
    bad = out.get("bytes_ok") != "1" or out.get("reverse_ok") != "1" or out.get("extra_bytes") != "0" or str(out.get("op_result", "ok")) != "ok"
    if scn.get("op") == "shutdown":
        bad |= out.get("eof_seen") != "1"
    else:
        bad |= out.get("eof_seen") != "0" or out.get("write_after_op_ok") != "1"
    return bad


def obligations(prog, src, tier, seed):
    obs = []

    def fn_of(path_re, op):
        return prog.find_one(path_re + r"::<impl at src/stream/\w+\.rs:\d+:\d+: \d+:\d+>::" + op + "$")

    def world(ctx, arm):
        name, idx, kind = ARMS[arm]
        tok = Opaque("tokio " + name + " stream")
        wrapper = Agg(kind, [tok, Opaque("remote / info")])
        ctx.tok, ctx.wrapper = tok, wrapper
        ctx.io_calls = []
        ctx.cx = Ref(Cell(Opaque("Context"), "cx"))
        ctx.buf = Ref(Cell(Opaque("caller's buffer"), "buf"))
        return name, idx, wrapper

    def args_for(ctx, op, this):
        if op in ("poll_flush", "poll_shutdown"):
            return [this, ctx.cx]
        if op == "is_write_vectored":
            return [this]
        return [this, ctx.cx, ctx.buf]

    def run_braid(ctx):
        arm = ctx.choose([(True, k) for k in range(3)], "arm")
        op = ctx.choose([(True, o) for o in OPS[:4]], "operation")
        name, idx, wrapper = world(ctx, arm)
        braid = Agg("struct:Braid", [Enum("BraidCore", name, idx, [wrapper])])
        ctx.op, ctx.arm = op, name
        f = fn_of(r"core", op)
        return ctx.exec_fn(f, args_for(ctx, op, Ref(Cell(braid, "braid"))))

    def run_wrapper(ctx):
        arm = ctx.choose([(True, k) for k in range(3)], "wrapper")
        op = ctx.choose([(True, o) for o in (OPS if arm != 1 else OPS[:4])], "operation")
        name, idx, wrapper = world(ctx, arm)
        ctx.op, ctx.arm = op, name
        f = fn_of(r"stream::" + {"Tcp": "tcp", "Duplex": "duplex", "Unix": "unix"}[name], op)
        return ctx.exec_fn(f, args_for(ctx, op, Ref(Cell(wrapper, "stream"))))

    def check(p):
        ctx = p.ctx
        if p.outcome == "panic":
            return [("the wrapper panics", False)]
        calls = ctx.io_calls
        props = [(f"{ctx.arm}.{ctx.op}: exactly one call reaches the underlying stream", len(calls) == 1)]
        if len(calls) == 1:
            c = calls[0]
            props.append((f"{ctx.arm}.{ctx.op}: the underlying stream receives the same operation (got {c['op']})", c["op"] == ctx.op))
            props.append((f"{ctx.arm}.{ctx.op}: the call goes to the stream this arm holds", c["self"] is ctx.tok))
            want = [ctx.cx] if ctx.op in ("poll_flush", "poll_shutdown") else [] if ctx.op == "is_write_vectored" else [ctx.cx, ctx.buf]
            same = len(want) == len(c["args"]) and all(deref(ctx, x) is deref(ctx, y) for x, y in zip(want, c["args"]))
            props.append((f"{ctx.arm}.{ctx.op}: context and buffer are passed on unchanged", same))
            props.append((f"{ctx.arm}.{ctx.op}: the result (bytes transferred, Pending, end-of-stream, error) is returned unchanged", p.value is c["ret"]))
        props.append(("witness:reach", z3.BoolVal(True)))
        return props

    def cex(p, m):
        op = {"poll_shutdown": "shutdown", "poll_flush": "flush"}.get(p.ctx.op, "none")
        return {"family": "braid_op", "arm": p.ctx.arm.lower(), "op": op}

    obs.append({"name": "c18_core_braid_dispatch", "family": "core_braid", "funcs": ["stream::core::<Braid as AsyncRead>::poll_read", "stream::core::<Braid as AsyncWrite>::{poll_write,poll_flush,poll_shutdown}",
                                                                                     "stream::{tcp::TcpStream,unix::UnixStream,duplex::DuplexStream}::{poll_read,poll_write,poll_flush,poll_shutdown} (run from MIR below Braid)"],
                "bound": "3 arms x 4 operations; buffer, context and the underlying stream's result are opaque values (identity is asserted, so every byte pattern, length, Pending, EOF and error is covered)",
                "doc": "Braid -> wrapper -> tokio stream: same operation, same receiver, same arguments, result returned unchanged", "run": run_braid, "check": check, "crosscheck": False,
                "cex_extract": cex, "judge": judge_braid})
    obs.append({"name": "c18_stream_wrapper_dispatch", "family": "stream_wrappers", "funcs": ["stream::tcp::TcpStream::{poll_read,poll_write,poll_flush,poll_shutdown,poll_write_vectored,is_write_vectored}",
                                                                                            "stream::unix::UnixStream::{same six}", "stream::duplex::DuplexStream::{poll_read,poll_write,poll_flush,poll_shutdown}"],
                "bound": "3 wrappers x their operations (vectored writes for TCP and Unix)", "doc": "each wrapper forwards to its tokio stream unchanged", "run": run_wrapper, "check": check, "crosscheck": False,
                "cex_extract": cex, "judge": judge_braid})
    return obs
