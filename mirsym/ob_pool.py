"""Pool obligations (shared by C02, C04, C05, C06, C15): step contracts of the connection pool's
synchronous functions, from arbitrary bounded pre-states."""
import z3

import pool_models  # noqa: F401  (registers the models)
from interp import Agg, Cell, Enum, Inconclusive, Opaque, Ref, UNIT, none, some
from models import OneshotSenderV, VecDequeV, deref
from pool_models import HashMapV, PConnV, SharedV, VecV, WeakV


def token(n):
    return Agg("struct:Token", [some(z3.BitVecVal(n, 64)) if n else none()])


def token_value(t):
    o = t.f[0]
    return 0 if o.variant == "None" else z3.simplify(o.f[0]).as_long()


def config(idle_timeout, max_idle, cont=False):
    return Agg("struct:Config", [idle_timeout, max_idle, z3.BoolVal(cont)])


def idle_list(entries):
    """entries: [(instant, conn)] oldest first"""
    return Agg("struct:IdleConnections", [VecV([Agg("struct:Idle", [at, c]) for at, c in entries]), Agg("struct:PhantomData", [])])


def pool_ref_none():
    return Agg("struct:PoolRef", [Agg("struct:WeakOpt", [none()])])


def pool_ref(shared):
    return Agg("struct:PoolRef", [Agg("struct:WeakOpt", [some(WeakV(shared))])])


def idle_conns(inner, tok):
    """connections stored idle for token `tok` (oldest first)"""
    m = inner.f[3]
    for k, cell in m.entries:
        if token_value(k) == tok:
            return [i.f[1] for i in cell.v.f[0].items]
    return []


WAITER_TUPLES = False  # set from the MIR: are queued waiters `(Sender, follows_attempt)` pairs?


def detect_waiter_shape(prog, f_push):
    """the element type of PoolInner.waiting is read off the locals of the real push()"""
    global WAITER_TUPLES
    WAITER_TUPLES = any("VecDeque<(tokio::sync::oneshot::Sender<" in t for t in f_push.locals.values())
    if not WAITER_TUPLES:
        # push() may have handed the waiter walk to a helper: look at every function of the pool module
        for f in prog.funcs:
            if "pool::" in f.name and any("VecDeque<(tokio::sync::oneshot::Sender<" in t for t in list(f.locals.values()) + [a[1] for a in f.args]):
                WAITER_TUPLES = True
                break
    return WAITER_TUPLES


def queued(sender, follows=False):
    """a waiting-queue element of the shape the current source uses"""
    return Agg("tuple", [sender, z3.BoolVal(follows)]) if WAITER_TUPLES else sender


def sender_of(x):
    return x.f[0] if isinstance(x, Agg) and x.kind == "tuple" else x


def waiters(inner, tok):
    m = inner.f[2]
    for k, cell in m.entries:
        if token_value(k) == tok:
            return [sender_of(c.v) for c in cell.v.cells]
    return []


def connecting(inner):
    return sorted(token_value(k) for k, _ in inner.f[1].entries)


def build_inner(ctx, nw, ni, share, with_b, mark, max_idle, idle_timeout=None, open_sym=True):
    """PoolInner pre-state: token 1 (A) has `nw` waiters and `ni` idle entries, token 2 (B) one of each"""
    ctx.now = z3.Int("now")
    ctx.assume(ctx.now >= 0)
    waiting, idle, conn = HashMapV(), HashMapV(), HashMapV()
    ws = []
    for i in range(nw):
        ws.append(OneshotSenderV(z3.Bool(f"waiter{i}_still_waiting"), tag=f"A{i}"))
    if nw:
        waiting.entries.append((token(1), Cell(VecDequeV([queued(w) for w in ws]), "waitA")))
    ents = []
    for i in range(ni):
        at = z3.Int(f"idle_since{i}")
        ctx.assume(z3.And(at >= 0, at <= ctx.now))
        if i:
            ctx.assume(ents[-1][0] <= at)
        ents.append((at, PConnV(i, share, z3.Bool(f"idle{i}_open") if open_sym else z3.BoolVal(True))))
    if ni:
        idle.entries.append((token(1), Cell(idle_list(ents), "idleA")))
    wb = None
    if with_b:
        wb = OneshotSenderV(z3.BoolVal(True), tag="B0")
        waiting.entries.append((token(2), Cell(VecDequeV([queued(wb)]), "waitB")))
        idle.entries.append((token(2), Cell(idle_list([(z3.IntVal(0), PConnV(5, False, z3.BoolVal(True)))]), "idleB")))
    if mark:
        conn.entries.append((token(1), Cell(UNIT, "hs")))
        if with_b:
            conn.entries.append((token(2), Cell(UNIT, "hs")))
    it = none() if idle_timeout is None else some(idle_timeout)
    inner = Agg("struct:PoolInner", [config(it, z3.BitVecVal(max_idle, 64)), conn, waiting, idle])
    ctx.ws, ctx.wb, ctx.idle_pre = ws, wb, ents
    return inner


def extract_pop(p, m):
    """the counterexample's idle list, in release order, as open/closed flags; all-open lists replay through the
    burst family, lists with entries closed by the peer through pool_idle_closed"""
    ents = getattr(p.ctx, "idle_pre", [])
    flags = []
    for _, c in ents:
        v = m.eval(c.is_open, model_completion=True) if z3.is_expr(c.is_open) else c.is_open
        flags.append("1" if z3.is_true(v) or v is True else "0")
    ctx = p.ctx
    r = p.value
    if getattr(ctx, "has_to", False) and getattr(r, "variant", "") == "Some" and r.f[0].cid < len(ents):
        # a connection was handed out although a timeout is configured: if that entry had expired, expiry is what
        # the counterexample is about; the replay reduces it to that one entry (same shareability, expired, open)
        k = r.f[0].cid
        dv = m.eval(ctx.d, model_completion=True).as_long()
        age = m.eval(ctx.now - ents[k][0], model_completion=True).as_long()
        if dv > 0 and age > dv and flags[k] == "1":
            return {"family": "pool_idle_expiry", "share": "1" if getattr(ctx, "share", False) else "0", "timeout_ms": 40, "gap_ms": 250,
                    "note": f"reduced from {len(ents)} idle entries to the one handed out"}
    if len(ents) == 1 and flags == ["1"] and getattr(ctx, "has_to", False):
        # a single open entry and a timeout: expiry is what the counterexample is about.  The replay keeps the
        # side of the deadline the solver chose, with a wide margin (40 ms against 250 ms)
        dv = m.eval(ctx.d, model_completion=True).as_long()
        age = m.eval(ctx.now - ents[0][0], model_completion=True).as_long()
        share = "1" if getattr(ctx, "share", False) else "0"
        if dv == 0:
            return {"family": "pool_idle_expiry", "share": share, "timeout_ms": 0, "gap_ms": 120}
        if age > dv:
            return {"family": "pool_idle_expiry", "share": share, "timeout_ms": 40, "gap_ms": 250}
        return {"family": "pool_idle_expiry", "share": share, "timeout_ms": 2000, "gap_ms": 60}
    if flags and "0" in flags and not getattr(p.ctx, "has_to", False):
        return {"family": "pool_idle_closed", "open": "".join(flags)}
    if flags and "0" in flags:
        return {"family": "pool_idle_closed", "open": "".join(flags), "note": "idle_timeout left out of the replay"}
    return {"family": "pool_release", "max_idle": 8, "burst": 2}


def judge_pop(scn, out):
    if out.get("result", "").startswith(("panic", "crash")):
        return True
    if "input_error" in out:
        return None
    if scn.get("family") == "pool_idle_expiry":
        return out.get("dials") != out.get("expected_dials") or out.get("r0") != "200" or out.get("r1") != "200"
    if scn.get("family") == "pool_idle_closed":
        return out.get("dials_second") != out.get("expected_dials") or out.get("probes_ok") != out.get("probes")
    if "discarded" in scn.get("claim", "") and int(out.get("dials_second", "0")) > 0:
        return True
    return None


def live_waiters(ctx, m):
    """number of requests that are still waiting for the attempt in the counterexample"""
    n = 0
    for w in getattr(ctx, "ws", []):
        v = m.eval(w.alive, model_completion=True) if z3.is_expr(w.alive) else w.alive
        if z3.is_true(v) or v is True:
            n += 1
    return n


def judge_h2_followers(scn, out):
    """one HTTP/2 connection must carry the owner, its followers and the later request"""
    if out.get("result", "").startswith(("panic", "crash")):
        return True
    return int(out.get("dials", "1")) > 1 or out.get("later") != "200" or int(out.get("first_ok", "0")) < int(scn.get("followers", 0)) + 1


def extract_release(p, m):
    """the release-path counterexamples that have a public-API replay: a closed connection handed
    back (delivered to a waiting request), or an open one not kept"""
    ctx = p.ctx
    if getattr(ctx, "finished_ready", False) and getattr(getattr(ctx, "conn", None), "last_ready", None) not in ("ok", "err"):
        # the hand-back task gave up on a connection that never reported readiness: a busy, open connection
        # re-enters the pool.  A real HttpConnection cannot show this (its is_open() is its readiness), so the
        # replay uses its own PoolableConnection over the mock transport
        return {"family": "pool_busy_handback", "idle_timeout_ms": 50, "wait_ms": 80}
    return {"family": "pool_closed_handback"}


def judge_release(scn, out):
    if out.get("result", "").startswith(("panic", "crash")):
        return True
    if scn.get("family") == "pool_busy_handback":
        return out.get("busy_handout") == "1"
    claim = scn.get("claim", "")
    if "closed connection" in claim or "handed back" in claim or "before it was asked" in claim or "hand-back task" in claim:
        return any(out.get(k) != "200" for k in ("a", "c", "d"))
    return None


def obligations(prog, src, tier, seed, which, select=None):
    obs = []
    PM = r"pool::<impl at src/client/pool/mod\.rs:\d+:\d+: \d+:\d+>::"
    f_push = prog.find_one(PM + r"push$", r"PoolInner")
    detect_waiter_shape(prog, f_push)
    f_pop = prog.find_one(PM + r"pop$", r"PoolInner")
    f_pooled_drop = prog.find_one(PM + r"drop$", r"&mut Pooled<")
    f_wr_poll = prog.find_one(PM + r"poll$", r"WhenReady")
    f_wr_drop = prog.find_one(PM + r"drop$", r"&mut pool::WhenReady<")
    f_checkout = prog.find_one(PM + r"checkout$", r"&Pool<")
    f_register = prog.find_one(r"^register_connected$")

    # ------------------------------------------------------------------------------------------------
    # PoolInner::push
    # ------------------------------------------------------------------------------------------------
    def run_push(ctx):
        nw = ctx.choose([(True, k) for k in (0, 1, 2)], "waiters")
        ni = ctx.choose([(True, k) for k in (0, 1, 2)], "idle")
        share = ctx.choose([(True, False), (True, True)], "shareable")
        with_b = ctx.choose([(True, False), (True, True)], "other origin populated")
        max_idle = ctx.choose([(True, k) for k in (0, 1, 2, 8) if k >= ni], "max_idle_per_host")
        ctx.nw, ctx.ni, ctx.share, ctx.with_b, ctx.max_idle = nw, ni, share, with_b, max_idle
        inner = build_inner(ctx, nw, ni, share, with_b, True, max_idle)
        ctx.inner_cell = Cell(inner, "inner")
        c7 = PConnV(7, share, z3.Bool("pushed_open"))
        ctx.c7 = c7
        ctx.exec_fn(f_push, [Ref(ctx.inner_cell), token(1), c7, pool_ref_none()])

    def check_push(p):
        if p.outcome == "panic":
            return [("PoolInner::push panics: " + str(p.value)[:80], False)]
        ctx = p.ctx
        inner = ctx.inner_cell.v
        props = []
        A_idle = idle_conns(inner, 1)
        B_idle = idle_conns(inner, 2)
        delivered = [(e[1], e[2]) for e in ctx.events if e[0] == "oneshot_delivered"]
        # --- C06: nothing of the other origin moved
        if ctx.with_b:
            props.append(("push for one origin changed another origin's idle list", len(B_idle) == 1 and B_idle[0].cid == 5))
            props.append(("push for one origin consumed another origin's waiter", len(waiters(inner, 2)) == 1))
            props.append(("connection delivered to a waiter of a different origin", all(tag.startswith("A") for tag, _ in delivered)))
            props.append(("in-flight marker of another origin cleared", 2 in connecting(inner)))
        if ctx.share:
            props.append(("in-flight marker not cleared by the arriving multiplexed connection (the attempt is over)", 1 not in connecting(inner)))
        elif which == "C04":
            # a non-shareable connection is one that some request released: it is not the outcome of the in-flight
            # attempt, whose marker must stay (otherwise the attempt's followers can never be released)
            props.append(("a released non-multiplexed connection cleared the in-flight marker of an attempt it has nothing to do with (requests following that attempt would never be released)", 1 in connecting(inner)))
        alive = [w.alive for w in ctx.ws]
        n7_idle = sum(1 for c in A_idle if c.cid == 7)
        if not ctx.share:
            # --- C02: exactly one place, first live waiter first
            props.append(("non-shareable connection was cloned", ctx.c7.clones == 0))
            props.append(("non-shareable connection handed out more than once", len(delivered) + n7_idle <= 1))
            if delivered:
                k = int(delivered[0][0][1:])
                pooled = delivered[0][1]
                props.append(("waiter received a different connection", deref(ctx, pooled.f[0].f[0]).cid == 7 if pooled.f[0].variant == "Some" else False))
                props.append(("handle delivered to a waiter must carry the origin's token", token_value(pooled.f[1]) == 1))
                props.append(("connection handed to a waiter that is not the first one still waiting", z3.And(alive[k], *[z3.Not(alive[j]) for j in range(k)])))
            else:
                props.append(("a waiting request was passed over although a connection for its origin was released", z3.Not(z3.Or(*alive)) if alive else z3.BoolVal(True)))
                if which != "C15":
                    props.append(("released connection neither delivered nor kept although there is room", n7_idle == 1 or len(A_idle) >= ctx.max_idle))
        else:
            # --- C04: every live waiter gets a handle with the zero token, the connection is kept
            for i, w in enumerate(ctx.ws):
                got = [d for d in delivered if d[0] == f"A{i}"]
                props.append((f"waiting request {i} of a multiplexed origin was not served", z3.Implies(w.alive, z3.BoolVal(len(got) == 1))))
                if got:
                    props.append(("shared handle must carry the zero token", token_value(got[0][1].f[1]) == 0))
            props.append(("waiters left queued although a multiplexed connection arrived", len(waiters(inner, 1)) == 0))
            if which != "C15":
                props.append(("multiplexed connection not kept for later requests although there is room", n7_idle == 1 or len(A_idle) >= ctx.max_idle))
        # --- C15
        props.append(("more idle connections retained for one origin than max_idle_per_host", len(A_idle) <= ctx.max_idle))
        props.append(("witness:reach", z3.BoolVal(True)))
        return props

    def extract_push(p, m):
        ctx = p.ctx
        if which == "C04" and not ctx.share and 1 not in connecting(ctx.inner_cell.v):
            return {"family": "pool_preempted_owner", "cont": 0, "c": "h2"}
        if ctx.share and ctx.max_idle > 0:
            # a shared (HTTP/2) connection: replayed as "owner dials, the live waiters follow its attempt, a later
            # request must ride on the same connection"
            return {"family": "pool_h2_followers", "max_idle": ctx.max_idle, "followers": live_waiters(ctx, m)}
        return {"family": "pool_release", "max_idle": ctx.max_idle, "idle_before": ctx.ni, "waiters": ctx.nw, "shareable": int(ctx.share)}

    obs.append({"name": f"{which.lower()}_pool_push_step", "family": "pool_push", "funcs": ["client::pool::PoolInner::push", "client::pool::idle::IdleConnections::push", "client::pool::Pooled::take"],
                "bound": "pre-state: 0..2 waiters for the origin (each still waiting or gone: symbolic), 0..2 idle entries, shareable or not, another origin populated or not, max_idle_per_host in {0,1,2,8} >= current idle count",
                "doc": "one push from an arbitrary bounded valid state: non-shareable connection ends in exactly one place (first live waiter, else idle list); shareable: every live waiter gets a zero-token handle and the connection is kept; other origins untouched; idle count <= max_idle_per_host",
                "run": run_push, "check": check_push, "crosscheck": False, "max_paths": 20000, "cex_extract": extract_push,
                "judge": lambda scn, out: out.get("result", "").startswith(("panic", "crash")) or (out.get("rc") == "timeout" if scn.get("family") == "pool_preempted_owner" else judge_h2_followers(scn, out) if scn.get("family") == "pool_h2_followers" else int(out.get("idle_after", "0")) > int(scn["max_idle"]))})

    # ------------------------------------------------------------------------------------------------
    # PoolInner::pop
    # ------------------------------------------------------------------------------------------------
    def run_pop(ctx):
        ni = ctx.choose([(True, k) for k in (0, 1, 2, 3)], "idle")
        has_to = ctx.choose([(True, False), (True, True)], "idle_timeout set")
        with_b = ctx.choose([(True, False), (True, True)], "other origin populated")
        share = ctx.choose([(True, False), (True, True)], "idle connections shareable (HTTP/2)") if ni else False
        d = z3.Int("idle_timeout")
        ctx.assume(d >= 0)
        ctx.ni, ctx.has_to, ctx.with_b, ctx.d, ctx.share = ni, has_to, with_b, d, share
        inner = build_inner(ctx, 0, ni, share, with_b, False, 8, idle_timeout=d if has_to else None)
        ctx.inner_cell = Cell(inner, "inner")
        return ctx.exec_fn(f_pop, [Ref(ctx.inner_cell), token(1)])

    def check_pop(p):
        if p.outcome == "panic":
            return [("PoolInner::pop panics: " + str(p.value)[:80], False)]
        ctx = p.ctx
        inner = ctx.inner_cell.v
        r = p.value
        ents = ctx.idle_pre
        fresh = [z3.BoolVal(True) if not ctx.has_to else z3.Or(ctx.d == 0, at >= ctx.now - ctx.d) for at, _ in ents]
        elig = [z3.And(f, c.is_open) for f, (_, c) in zip(fresh, ents)]
        props = []
        if ctx.with_b:
            b = idle_conns(inner, 2)
            props.append(("pop for one origin changed another origin's idle list", len(b) == 1 and b[0].cid == 5))
        left = idle_conns(inner, 1)
        if r.variant == "Some":
            c = r.f[0]
            k = c.cid
            props.append(("connection of another origin handed out", k < len(ents)))
            if k < len(ents):
                props.append(("closed connection handed out", ents[k][1].is_open))
                props.append(("connection idle for longer than idle_timeout handed out", fresh[k]))
                props.append(("handed-out connection is not the most recently released eligible one", z3.And(*[z3.Not(e) for e in elig[k + 1:]]) if elig[k + 1:] else z3.BoolVal(True)))
                props.append(("handed-out connection is still listed as idle (could be handed out twice)", all(x.cid != k for x in left)))
                props.append(("idle connections released before the handed-out one were discarded instead of staying available for reuse", [x.cid for x in left] == list(range(k))))
        else:
            props.append(("an open, unexpired idle connection exists but was not reused (a dial would follow)", z3.Not(z3.Or(*elig)) if elig else z3.BoolVal(True)))
            props.append(("closed / expired entries retained after an unsuccessful pop", len(left) == 0))
        props.append(("witness:reach", z3.BoolVal(True)))
        return props

    obs.append({"name": f"{which.lower()}_pool_pop_step", "family": "pool_pop", "funcs": ["client::pool::PoolInner::pop", "client::pool::idle::IdleConnections::{pop,is_empty,len,clear}"],
                "bound": "0..3 idle entries released at symbolic non-decreasing instants, each open/closed (symbolic), idle_timeout None or any duration >= 0 (incl. zero), pop at any later instant, another origin populated or not",
                "doc": "one pop from an arbitrary bounded state returns the most recently released entry that is open and not idle for longer than the timeout, None only if there is none; discards what it skipped; other origins untouched",
                "run": run_pop, "check": check_pop, "crosscheck": False, "max_paths": 20000,
                "cex_extract": extract_pop, "judge": judge_pop})

    # ------------------------------------------------------------------------------------------------
    # release path: Pooled::drop -> WhenReady::{poll, drop}
    # ------------------------------------------------------------------------------------------------
    def run_release(ctx):
        share = ctx.choose([(True, False), (True, True)], "shareable")
        tok = ctx.choose([(True, 1), (True, 0)], "token")
        pool_alive = ctx.choose([(True, True), (True, False)], "pool alive")
        script = ctx.choose([(True, s_) for s_ in (("ok",), ("err",), ("pending", "ok"), ("pending", "pending", "err"), ("pending",), ("pending", "pending"))], "readiness script")
        cancel_after = ctx.choose([(True, k) for k in range(0, len(script) + 1)], "task dropped after k polls")
        ni = ctx.choose([(True, 0), (True, 1)], "idle before")
        nw = ctx.choose([(True, 0), (True, 1)], "requests waiting for a connection of this origin")
        ctx.share, ctx.tok, ctx.pool_alive, ctx.script, ctx.cancel_after, ctx.ni = share, tok, pool_alive, script, cancel_after, ni
        # the pool's configuration is something the hand-back path could read (round 7: a task that gives up on a
        # busy connection once `idle_timeout` has passed since the release): idle_timeout is None or any
        # duration, and virtual time advances by an arbitrary amount before every poll of the task
        has_to = ctx.choose([(True, False), (True, True)], "idle_timeout set")
        d_to = z3.Int("idle_timeout")
        ctx.assume(d_to >= 0)
        inner = build_inner(ctx, nw, ni, False, False, False, 8, idle_timeout=d_to if has_to else None)
        shared = SharedV(inner, "pool")
        shared.alive = pool_alive
        ctx.shared = shared
        open_now = z3.Bool("open_when_task_ends")
        conn = PConnV(7, share, open_now, script)
        ctx.conn = conn
        pooled = Agg("struct:Pooled", [some(conn), token(tok), pool_ref(shared)])
        ctx.exec_fn(f_pooled_drop, [Ref(Cell(pooled, "pooled"))])
        spawned = getattr(ctx, "spawned", [])
        ctx.n_spawned = len(spawned)
        ctx.pending_violation = False
        ctx.finished_ready = False

        def visible():
            return any(c.cid == 7 for c in idle_conns(shared.cell.v, 1)) or any(e[0] == "oneshot_delivered" for e in ctx.events)
        # right after the release nothing may have happened to the connection yet: it has not been asked
        # whether it is ready again (C02: "nor before it has reported itself ready again after its previous use")
        ctx.early_handout = (not share) and visible()
        if spawned:
            wr = Cell(spawned[0], "whenready")
            polls = 0
            done = False
            while polls < cancel_after and not done:
                dt = z3.Int(f"release_dt{polls}")
                ctx.assume(dt >= 0)
                ctx.now = ctx.now + dt
                r = ctx.exec_fn(f_wr_poll, [Ref(wr), Ref(Cell(Opaque("Context"), "cx"))])
                polls += 1
                if r.variant == "Ready":
                    done = True
                    ctx.finished_ready = True
                else:
                    # while the task is pending the connection must not be available to anybody else
                    if visible():
                        ctx.pending_violation = True
            ctx.polls = polls
            last_pending = (polls == 0) or (not done)
            # a sender that is still busy (poll_ready pending / never polled after use) does not report open:
            # HttpConnection::is_open is SendRequest::is_ready()
            if not done and polls > 0:
                ctx.assume(z3.Not(open_now))
            # the task is dropped (completed, or cancelled at runtime shutdown)
            ctx.exec_fn(f_wr_drop, [Ref(wr)])
        return None

    def check_release(p):
        if p.outcome == "panic":
            return [("release path panics / deadlocks: " + str(p.value)[:80], False)]
        ctx = p.ctx
        props = []
        inner = ctx.shared.cell.v
        in_idle = sum(1 for c in idle_conns(inner, 1) if c.cid == 7)
        if ctx.share:
            props.append(("a shareable (multiplexed) handle must be dropped without a hand-back task", ctx.n_spawned == 0))
            props.append(("a dropped shareable handle must not be stored again", in_idle == 0))
            return props
        props.append(("releasing a non-shareable connection starts exactly one hand-back task", ctx.n_spawned == 1))
        props.append(("connection visible in the pool while its hand-back task was still waiting for readiness", not ctx.pending_violation))
        props.append(("a released connection was handed to a waiting request / put back into the pool before it was asked whether it is ready again", not ctx.early_handout))
        props.append(("pool mutex left locked", not ctx.shared.locked))
        # the task may only report completion once the connection itself reported ready (or failed):
        # otherwise a still-busy connection re-enters the pool when the finished task is dropped
        props.append(("hand-back task completed although the connection never reported readiness (a busy connection would re-enter the pool)",
                      (not ctx.finished_ready) or getattr(ctx.conn, "last_ready", None) in ("ok", "err")))
        open_now = ctx.conn.is_open
        should = z3.And(open_now, z3.BoolVal(ctx.tok != 0 and ctx.pool_alive))
        props.append(("a closed connection, or one the pool does not manage, was handed back to the pool", z3.Implies(z3.BoolVal(in_idle > 0), should)))
        delivered = any(e[0] == "oneshot_delivered" for e in ctx.events)
        props.append(("a closed connection, or one the pool does not manage, was handed to a waiting request", z3.Implies(z3.BoolVal(delivered), should)))
        props.append(("an open pool-managed connection was neither kept for reuse nor handed to a waiting request after release", z3.Implies(should, z3.BoolVal(in_idle == 1 or delivered))))
        props.append(("connection stored twice", in_idle <= 1))
        return props

    obs.append({"name": f"{which.lower()}_pool_release_path", "family": "pool_release_path", "funcs": ["<Pooled as Drop>::drop", "<WhenReady as Future>::poll", "<WhenReady as Drop>::drop", "client::pool::PoolRef::lock", "client::pool::PoolInner::push"],
                "bound": "shareable or not, pool token zero/non-zero, pool alive or dropped, idle_timeout None or any duration >= 0, an arbitrary amount of virtual time before every poll, readiness scripts of <= 3 polls ending in Ok/Err/never, task cancelled after any number of polls, 0..1 idle entries before",
                "doc": "release -> hand-back: only non-shareable connections get a task; the connection re-enters the pool only when the task ends, only if open and pool-managed, at most once; never while still waiting for readiness; no deadlock on the pool mutex",
                "run": run_release, "check": check_release, "crosscheck": False, "max_paths": 20000,
                "cex_extract": extract_release, "judge": judge_release})

    # ------------------------------------------------------------------------------------------------
    # Pool::checkout (synchronous part of acquiring a connection) and register_connected
    # ------------------------------------------------------------------------------------------------
    class ConnectorV:
        def __init__(self):
            self.dropped = False

        def mir_drop(self, ctx):
            self.dropped = True

    def run_checkout(ctx):
        known_key = ctx.choose([(True, True), (True, False)], "origin seen before")
        idle_state = ctx.choose([(True, "none"), (True, "one"), (True, "two")], "idle for this origin") if known_key else "none"
        inflight = ctx.choose([(True, False), (True, True)], "attempt in flight for this origin") if known_key else False
        multiplex = ctx.choose([(True, False), (True, True)], "request is multiplexed (HTTP/2)")
        cont = ctx.choose([(True, False), (True, True)], "continue_after_preemption")
        ni = {"none": 0, "one": 1, "two": 2}[idle_state]
        ctx.known_key, ctx.ni, ctx.inflight, ctx.multiplex = known_key, ni, inflight, multiplex
        inner = build_inner(ctx, 0, ni, False, True, False, 8)
        inner.f[0] = config(none(), z3.BitVecVal(8, 64), cont)
        if inflight:
            inner.f[1].entries.append((token(1), Cell(UNIT, "hs")))
        shared = SharedV(inner, "pool")
        ctx.shared = shared
        # key -> token map: key 10 -> token 1 (origin A), key 20 -> token 2 (origin B); next fresh token is 3
        tm = HashMapV()
        tm.entries.append((z3.BitVecVal(10, 64), Cell(token(1), "tm")))
        tm.entries.append((z3.BitVecVal(20, 64), Cell(token(2), "tm")))
        keys = SharedV(Agg("struct:TokenMap", [z3.BitVecVal(3, 64), tm]), "keys")
        ctx.keys = keys
        pool = Agg("struct:Pool", [shared, keys])
        key = z3.BitVecVal(10 if known_key else 30, 64)
        connector = ConnectorV()
        ctx.connector = connector
        co = ctx.exec_fn(f_checkout, [Ref(Cell(pool, "pool")), key, z3.BoolVal(multiplex), connector])
        return co

    def check_checkout(p):
        if p.outcome == "panic":
            return [("Pool::checkout panics / deadlocks: " + str(p.value)[:80], False)]
        ctx = p.ctx
        co = p.value
        inner = ctx.shared.cell.v
        tok = token_value(co.f[0])
        want_tok = 1 if ctx.known_key else 3
        props = [("checkout is bound to the token of its own origin (same key => same token, new key => fresh token)", tok == want_tok)]
        props.append(("pool mutex left locked", not ctx.shared.locked and not ctx.keys.locked))
        ents = ctx.idle_pre
        elig = [c.is_open for _, c in ents]
        conn = co.f[4]
        state = co.f[3].variant
        waiter = co.f[2].variant
        my_waiters = waiters(inner, want_tok)
        other_waiters = waiters(inner, 2)
        props.append(("another origin's waiter queue was touched", len(other_waiters) == 1))
        props.append(("another origin's idle list was touched", len(idle_conns(inner, 2)) == 1))
        if conn.variant == "Some":
            k = conn.f[0].cid
            props.append(("an idle connection of another origin was reused", k < len(ents)))
            if k < len(ents):
                props.append(("a closed idle connection was reused", ents[k][1].is_open))
            props.append(("a connection attempt was kept although an idle connection is reused", ctx.connector.dropped and state == "Connected"))
        else:
            props.append(("an open idle connection exists but the request will dial / wait instead of reusing it", z3.Not(z3.Or(*elig)) if elig else z3.BoolVal(True)))
            props.append(("the request is not registered as waiting for a released connection of its origin", len(my_waiters) == 1))
            if ctx.inflight:
                props.append(("a second connection attempt is started although one is already in flight for the origin", ctx.connector.dropped and state == "Waiting" and waiter == "Connecting"))
            else:
                props.append(("request neither reuses, waits nor dials", (not ctx.connector.dropped) and state in ("Connecting", "ConnectingWithDelayDrop") and waiter == "Idle"))
                props.append(("a multiplexed attempt must mark the origin as connecting so that later requests wait for it; a non-multiplexed one must not",
                              (want_tok in connecting(inner)) == ctx.multiplex))
        props.append(("witness:reach", z3.BoolVal(True)))
        return props

    obs.append({"name": f"{which.lower()}_pool_checkout_step", "family": "pool_checkout", "funcs": ["client::pool::Pool::checkout", "client::pool::key::TokenMap::insert", "client::pool::PoolInner::pop", "client::pool::checkout::Checkout::new"],
                "bound": "origin seen before or new, 0..2 idle entries (open/closed symbolic), an attempt in flight or not, multiplexed request or not, both continue_after_preemption settings, a second origin populated",
                "doc": "checkout reuses an open idle connection instead of dialing; otherwise registers as waiter; with an attempt in flight it becomes a pure waiter (no second dial); a multiplexed dial marks the origin as connecting; everything is keyed by the origin's own token",
                "run": run_checkout, "check": check_checkout, "crosscheck": False, "max_paths": 20000,
                "cex_extract": lambda p, m: extract_pop(p, m) if "0" in "".join("1" if z3.is_true(m.eval(c.is_open, model_completion=True)) else "0" for _, c in p.ctx.idle_pre if z3.is_expr(c.is_open)) else None,
                "judge": judge_pop})

    def run_register(ctx):
        share = ctx.choose([(True, False), (True, True)], "shareable")
        pool_alive = ctx.choose([(True, True), (True, False)], "pool alive")
        nw = ctx.choose([(True, 0), (True, 1), (True, 2)], "waiters")
        ctx.share, ctx.pool_alive, ctx.nw = share, pool_alive, nw
        inner = build_inner(ctx, nw, 0, share, True, True, 8)
        shared = SharedV(inner, "pool")
        shared.alive = pool_alive
        ctx.shared = shared
        c7 = PConnV(7, share, z3.BoolVal(True))
        ctx.c7 = c7
        pr = pool_ref(shared)
        return ctx.exec_fn(f_register, [Ref(Cell(pr, "poolref")), token(1), c7])

    def check_register(p):
        if p.outcome == "panic":
            return [("register_connected panics / deadlocks: " + str(p.value)[:80], False)]
        ctx = p.ctx
        pooled = p.value
        inner = ctx.shared.cell.v
        props = [("the new connection is returned to the request that dialed it", pooled.f[0].variant == "Some" and pooled.f[0].f[0].cid == 7)]
        props.append(("pool mutex left locked", not ctx.shared.locked))
        delivered = [(e[1], e[2]) for e in ctx.events if e[0] == "oneshot_delivered"]
        stored = sum(1 for c in idle_conns(inner, 1) if c.cid == 7)
        if ctx.share and ctx.pool_alive:
            props.append(("a new multiplexed connection must be shared with the pool for later requests", stored == 1))
            props.append(("the dialing request's own multiplexed handle is not pool-managed (zero token)", token_value(pooled.f[1]) == 0))
            for i, w in enumerate(ctx.ws):
                got = [d for d in delivered if d[0] == f"A{i}"]
                props.append((f"request {i} waiting for the in-flight multiplexed attempt was not served when it completed", z3.Implies(w.alive, z3.BoolVal(len(got) == 1))))
            props.append(("in-flight marker not cleared when the attempt completed", 1 not in connecting(inner)))
        else:
            props.append(("a non-shareable (or pool-less) connection must not be stored or delivered while its request holds it", stored == 0 and not delivered))
            props.append(("the handle keeps the origin's token so that it can be handed back on release", token_value(pooled.f[1]) == 1))
        props.append(("connection delivered to another origin", all(t.startswith("A") for t, _ in delivered)))
        return props

    obs.append({"name": f"{which.lower()}_pool_register_connected", "family": "pool_register", "funcs": ["client::pool::checkout::register_connected", "client::pool::PoolInner::push", "client::pool::PoolRef::lock"],
                "bound": "shareable or not, pool alive or dropped, 0..2 requests waiting for the attempt (each still waiting or gone), a second origin populated",
                "doc": "a finished multiplexed attempt serves every waiting request and is stored for later ones, clearing the in-flight marker; a non-multiplexed connection goes only to the request that dialed it",
                "run": run_register, "check": check_register, "crosscheck": False, "max_paths": 20000,
                "cex_extract": lambda p, m: {"family": "pool_h2_followers", "max_idle": 8, "followers": live_waiters(p.ctx, m)} if p.ctx.share and p.ctx.pool_alive else None,
                "judge": judge_h2_followers})
    if select:
        obs = [o for o in obs if o['family'] in select]
    return obs
