"""Parser for rustc's textual MIR (`-Zunpretty=mir`) - the subset hyperdriver's functions use.

Produces Function objects: locals with types, basic blocks with statements and a terminator, all
as small tuples that interp.py executes.  Anything not recognised raises MirUnsupported, which the
executor reports as *inconclusive* - never as "holds".
"""
import re


class MirUnsupported(Exception):
    pass


class Function:
    def __init__(self, name, sig, header_line):
        self.name = name  # text between `fn ` and the argument list
        self.sig = sig
        self.header = header_line
        self.args = []  # [(local, type)]
        self.ret = None
        self.locals = {}  # local -> type
        self.blocks = {}  # bbN -> (stmts, term)
        self.text = []
        self.debug = {}

    def short(self):
        return self.name.rsplit("::", 1)[-1] if not self.name.endswith("}") else self.name


# ------------------------------------------------------------------------------------------------
# splitting helpers
# ------------------------------------------------------------------------------------------------
OPEN = "([{<"
CLOSE = ")]}>"


def split_top(s, sep=","):
    """split on `sep` at nesting depth 0 (brackets (), [], {}, <> and string/char literals)."""
    out = []
    depth = 0
    cur = []
    i = 0
    n = len(s)
    while i < n:
        c = s[i]
        if c == '"':
            j = i + 1
            while j < n and s[j] != '"':
                if s[j] == "\\":
                    j += 1
                j += 1
            cur.append(s[i:j + 1])
            i = j + 1
            continue
        if c == "'" and i + 2 < n and s[i + 1] != "\\" and s[i + 2] == "'":
            cur.append(s[i:i + 3])
            i += 3
            continue
        if c == "'" and i + 3 < n and s[i + 1] == "\\":
            j = s.find("'", i + 3)
            if j != -1 and j - i <= 12:
                cur.append(s[i:j + 1])
                i = j + 1
                continue
        if c in "([{":
            depth += 1
        elif c in ")]}":
            depth -= 1
        elif c == "<":
            # generic bracket unless it is a comparison (MIR has none in operand position)
            depth += 1
        elif c == ">":
            if i > 0 and s[i - 1] == "-":  # `->`
                pass
            elif i > 0 and s[i - 1] == "=":  # `=>`
                pass
            else:
                depth -= 1
        if c == sep and depth == 0:
            out.append("".join(cur).strip())
            cur = []
        else:
            cur.append(c)
        i += 1
    tail = "".join(cur).strip()
    if tail or out:
        out.append(tail)
    return [x for x in out if x != ""] if sep == "," else out


def match_paren(s, i):
    """index of the bracket matching s[i] (one of ([{ )."""
    o = s[i]
    c = {"(": ")", "[": "]", "{": "}"}[o]
    depth = 0
    j = i
    n = len(s)
    while j < n:
        ch = s[j]
        if ch == '"':
            j += 1
            while j < n and s[j] != '"':
                if s[j] == "\\":
                    j += 1
                j += 1
        elif ch == o:
            depth += 1
        elif ch == c:
            depth -= 1
            if depth == 0:
                return j
        j += 1
    raise MirUnsupported("unbalanced: " + s[:80])


# ------------------------------------------------------------------------------------------------
# places / operands / rvalues
# ------------------------------------------------------------------------------------------------
def parse_place(s):
    """-> ('local', n) | ('deref', P) | ('field', P, k, ty) | ('downcast', P, variant) | ('index', P, idxplace)
    | ('cindex', P, i, fromend)"""
    s = s.strip()
    m = re.fullmatch(r"_(\d+)", s)
    if m:
        return ("local", int(m.group(1)))
    if s.endswith("]"):
        # P[_i] or P[k of n] / P[-k of n]
        depth = 0
        for i in range(len(s) - 1, -1, -1):
            if s[i] == "]":
                depth += 1
            elif s[i] == "[":
                depth -= 1
                if depth == 0:
                    base = s[:i]
                    idx = s[i + 1:-1]
                    m = re.fullmatch(r"(-?)(\d+) of (\d+)", idx)
                    if m:
                        return ("cindex", parse_place(base), int(m.group(2)), m.group(1) == "-")
                    if ":" in idx:
                        raise MirUnsupported("subslice place " + s)
                    return ("index", parse_place(base), parse_place(idx))
    if s.startswith("(") and s.endswith(")") and match_paren(s, 0) == len(s) - 1:
        inner = s[1:-1].strip()
        if inner.startswith("*"):
            return ("deref", parse_place(inner[1:]))
        # (P as Variant)
        m = re.fullmatch(r"(.*) as ([A-Za-z_][A-Za-z0-9_]*(?:#\d+)?)", inner, flags=re.S)
        if m and (m.group(1).strip().startswith("_") or m.group(1).strip().startswith("(")):
            try:
                return ("downcast", parse_place(m.group(1)), m.group(2))
            except MirUnsupported:
                pass
        # (P.k: Type)
        # find the field access at depth 0: the last ".<digits>:" at depth 0
        depth = 0
        pos = None
        i = 0
        while i < len(inner):
            ch = inner[i]
            if ch in "([{<":
                depth += 1
            elif ch in ")]}":
                depth -= 1
            elif ch == ">" and inner[i - 1] != "-":
                depth -= 1
            elif ch == "." and depth == 0:
                m2 = re.match(r"\.(\d+): ", inner[i:])
                if m2:
                    pos = (i, m2)
                    break
            i += 1
        if pos is not None:
            i, m2 = pos
            base = inner[:i]
            ty = inner[i + m2.end():]
            return ("field", parse_place(base), int(m2.group(1)), ty.strip())
        raise MirUnsupported("place " + s)
    raise MirUnsupported("place " + s)


def parse_operand(s):
    s = s.strip()
    if s.startswith("copy "):
        return ("copy", parse_place(s[5:]))
    if s.startswith("move "):
        return ("move", parse_place(s[5:]))
    if s.startswith("no_retag copy "):
        return ("copy", parse_place(s[len("no_retag copy "):]))
    if s.startswith("no_retag move "):
        return ("move", parse_place(s[len("no_retag move "):]))
    if s.startswith("const "):
        return ("const", s[6:].strip())
    if re.match(r"[A-Za-z_<]", s) and not s.startswith(("copy", "move")):
        return ("fnitem", s)
    raise MirUnsupported("operand " + s)


BINOPS = {"Eq", "Ne", "Lt", "Le", "Gt", "Ge", "Add", "Sub", "Mul", "Div", "Rem", "BitAnd", "BitOr", "BitXor", "Shl", "Shr",
          "AddWithOverflow", "SubWithOverflow", "MulWithOverflow", "AddUnchecked", "SubUnchecked", "MulUnchecked", "ShlUnchecked", "ShrUnchecked", "Offset", "Cmp"}
UNOPS = {"Not", "Neg", "PtrMetadata"}


def parse_rvalue(s):
    s = s.strip()
    if s.startswith(("copy ", "move ", "const ", "no_retag ")):
        # may be followed by ` as T (Cast)`
        m = re.fullmatch(r"(.*) as (.*) \(([A-Za-z]+(?:\(.*\))?)\)", s, flags=re.S)
        if m and not s.startswith("const "):
            return ("cast", parse_operand(m.group(1)), m.group(2).strip(), m.group(3))
        if m and s.startswith("const "):
            try:
                return ("cast", parse_operand(m.group(1)), m.group(2).strip(), m.group(3))
            except MirUnsupported:
                pass
        return ("use", parse_operand(s))
    if s.startswith("&raw const "):
        return ("ref", parse_place(s[len("&raw const "):]), False)
    if s.startswith("&raw mut "):
        return ("ref", parse_place(s[len("&raw mut "):]), True)
    if s.startswith("&mut "):
        return ("ref", parse_place(s[5:]), True)
    if s.startswith("&fake shallow "):
        return ("ref", parse_place(s[len("&fake shallow "):]), False)
    if s.startswith("&"):
        return ("ref", parse_place(s[1:]), False)
    m = re.fullmatch(r"discriminant\((.*)\)", s, flags=re.S)
    if m:
        return ("discriminant", parse_place(m.group(1)))
    m = re.fullmatch(r"Len\((.*)\)", s, flags=re.S)
    if m:
        return ("len", parse_place(m.group(1)))
    m = re.fullmatch(r"([A-Za-z]+)\((.*)\)", s, flags=re.S)
    if m and m.group(1) in BINOPS:
        a, b = split_top(m.group(2))
        return ("binop", m.group(1), parse_operand(a), parse_operand(b))
    if m and m.group(1) in UNOPS:
        return ("unop", m.group(1), parse_operand(m.group(2)))
    # tuple / array aggregates
    if s.startswith("(") and match_paren(s, 0) == len(s) - 1:
        inner = s[1:-1].strip()
        if inner == "":
            return ("tuple", [])
        parts = split_top(inner)
        return ("tuple", [parse_operand(p) for p in parts])
    if s.startswith("[") and match_paren(s, 0) == len(s) - 1:
        inner = s[1:-1].strip()
        m2 = re.fullmatch(r"(.*); (\d+|[A-Z_a-z:0-9]+)", inner, flags=re.S)
        if m2 and not split_top(inner)[1:]:
            return ("repeat", parse_operand(m2.group(1)), m2.group(2))
        return ("array", [parse_operand(p) for p in split_top(inner)])
    # closure aggregate: {closure@...} { captures }  or {closure@...}
    if s.startswith("{closure@") or s.startswith("{coroutine@") or s.startswith("{async "):
        j = match_paren(s, 0)
        head = s[:j + 1]
        rest = s[j + 1:].strip()
        if rest == "":
            return ("closure", head, [])
        if rest.startswith("{") and rest.endswith("}"):
            fields = []
            for p in split_top(rest[1:-1]):
                k, _, v = p.partition(":")
                fields.append(parse_operand(v.strip()))
            return ("closure", head, fields)
        raise MirUnsupported("closure aggregate " + s[:100])
    # ADT aggregates:  Path::Variant(ops) | Path { f: op, .. } | Path::Variant
    m = re.fullmatch(r"(.*?)\s*\{(.*)\}", s, flags=re.S)
    if m and not m.group(1).endswith("@") and re.match(r"[A-Za-z_<]", m.group(1)):
        path = m.group(1).strip()
        fields = []
        body = m.group(2).strip()
        if body:
            for p in split_top(body):
                k, _, v = p.partition(":")
                fields.append((k.strip(), parse_operand(v.strip())))
        return ("adt_struct", path, fields)
    m = re.match(r"[A-Za-z_<]", s)
    if m:
        # Variant with parens?
        if s.endswith(")"):
            # find the matching open paren of the trailing group
            depth = 0
            for i in range(len(s) - 1, -1, -1):
                if s[i] == ")":
                    depth += 1
                elif s[i] == "(":
                    depth -= 1
                    if depth == 0:
                        path = s[:i].strip()
                        inner = s[i + 1:-1]
                        return ("adt_tuple", path, [parse_operand(p) for p in split_top(inner)])
        return ("adt_unit", s)
    raise MirUnsupported("rvalue " + s[:120])


# ------------------------------------------------------------------------------------------------
# statements / terminators
# ------------------------------------------------------------------------------------------------
IGNORED_STMT = re.compile(r"^(StorageLive|StorageDead|FakeRead|PlaceMention|AscribeUserType|Coverage|ConstEvalCounter|Retag|nop|Deinit|BackwardIncompatibleDropHint)\b")


def parse_targets(s):
    """`[return: bb1, unwind continue]` / `[0: bb1, otherwise: bb2]` / `[success: bb3, unwind: bb4]`"""
    s = s.strip()
    assert s.startswith("[") and s.endswith("]"), s
    out = {}
    for p in split_top(s[1:-1]):
        if p.startswith("unwind"):
            out["unwind"] = p[len("unwind"):].strip(": ").strip()
            continue
        k, _, v = p.partition(":")
        out[k.strip()] = v.strip()
    return out


def parse_stmt(line):
    line = line.strip()
    assert line.endswith(";"), line
    line = line[:-1]
    if IGNORED_STMT.match(line):
        return None
    m = re.fullmatch(r"discriminant\((.*)\) = (\d+)", line)
    if m:
        return ("setdiscr", parse_place(m.group(1)), int(m.group(2)))
    if line.startswith("assume(") or line.startswith("copy_nonoverlapping("):
        raise MirUnsupported("intrinsic stmt " + line)
    # assignment: split at first " = " at depth 0
    depth = 0
    i = 0
    n = len(line)
    while i < n:
        ch = line[i]
        if ch == '"':
            i += 1
            while i < n and line[i] != '"':
                if line[i] == "\\":
                    i += 1
                i += 1
        elif ch in "([{":
            depth += 1
        elif ch in ")]}":
            depth -= 1
        elif depth == 0 and line.startswith(" = ", i):
            lhs = line[:i]
            rhs = line[i + 3:]
            return ("assign", parse_place(lhs), rhs)
        i += 1
    raise MirUnsupported("statement " + line[:120])


def parse_terminator(line):
    line = line.strip()
    assert line.endswith(";"), line
    line = line[:-1]
    if line == "return":
        return ("return",)
    if line == "unreachable":
        return ("unreachable",)
    if line == "resume" or line.startswith("terminate") or line == "abort":
        return ("resume",)
    m = re.fullmatch(r"goto -> (bb\d+)", line)
    if m:
        return ("goto", m.group(1))
    m = re.fullmatch(r"switchInt\((.*)\) -> (\[.*\])", line, flags=re.S)
    if m:
        t = parse_targets(m.group(2))
        return ("switch", parse_operand(m.group(1)), t)
    m = re.fullmatch(r"drop\((.*)\) -> (\[.*\])", line, flags=re.S)
    if m:
        return ("drop", parse_place(m.group(1)), parse_targets(m.group(2)))
    m = re.fullmatch(r"assert\((.*)\) -> (\[.*\])", line, flags=re.S)
    if m:
        parts = split_top(m.group(1))
        cond = parts[0].strip()
        neg = False
        if cond.startswith("!"):
            neg = True
            cond = cond[1:]
        return ("assert", parse_operand(cond), neg, parts[1] if len(parts) > 1 else "", parse_targets(m.group(2)))
    m = re.fullmatch(r"falseEdge -> \[real: (bb\d+), imaginary: bb\d+\]", line)
    if m:
        return ("goto", m.group(1))
    m = re.fullmatch(r"falseUnwind -> \[real: (bb\d+), .*\]", line)
    if m:
        return ("goto", m.group(1))
    # call:  [place = ]callee(args) -> [targets]   |   callee(args) -> unwind continue   (diverging)
    m = re.fullmatch(r"(.*?) -> (\[.*\]|unwind .*|bb\d+)", line, flags=re.S)
    if m:
        call = m.group(1).strip()
        tg = m.group(2).strip()
        targets = parse_targets(tg) if tg.startswith("[") else {"unwind": tg[len("unwind"):].strip() if tg.startswith("unwind") else tg}
        dest = None
        # destination: `PLACE = ` prefix at depth 0
        depth = 0
        i = 0
        n = len(call)
        cut = None
        while i < n:
            ch = call[i]
            if ch in "([{":
                depth += 1
            elif ch in ")]}":
                depth -= 1
            elif depth == 0 and call.startswith(" = ", i):
                cut = i
                break
            i += 1
        if cut is not None:
            dest = parse_place(call[:cut])
            call = call[cut + 3:].strip()
        if not call.endswith(")"):
            raise MirUnsupported("call " + call[:100])
        # find matching '(' of the final argument list
        depth = 0
        j = len(call) - 1
        k = None
        instr = False
        while j >= 0:
            ch = call[j]
            if ch == '"':
                # skip string literal backwards
                j -= 1
                while j >= 0 and not (call[j] == '"' and call[j - 1] != "\\"):
                    j -= 1
            elif ch in ")]}":
                depth += 1
            elif ch in "([{":
                depth -= 1
                if depth == 0:
                    k = j
                    break
            j -= 1
        callee = call[:k].strip()
        args = [parse_operand(a) for a in split_top(call[k + 1:-1])]
        return ("call", dest, callee, args, targets)
    raise MirUnsupported("terminator " + line[:120])


# ------------------------------------------------------------------------------------------------
# file level
# ------------------------------------------------------------------------------------------------
def parse_file(path):
    """-> (functions: list[Function], promoted/statics ignored, allocs: dict name->bytes)"""
    funcs = []
    allocs = {}
    cur = None
    cur_block = None
    text = open(path, errors="replace").read()
    # char literals that contain bracket/comma characters would confuse the bracket matcher
    text = re.sub(r"const '([\[\](){}<>,\"])'", lambda m: "const '\\u{%x}'" % ord(m.group(1)), text)
    lines = text.split("\n")
    i = 0
    n = len(lines)
    pending = None
    while i < n:
        line = lines[i]
        if cur is None:
            if line.startswith("fn ") and line.rstrip().endswith("{"):
                hdr = line[3:].rstrip()[:-1].rstrip()
                # name(args) -> ret
                # find the argument list: first '(' at depth 0 that is followed by `_1:` or `)`
                k = find_arglist(hdr)
                name = hdr[:k]
                j = match_paren(hdr, k)
                argtxt = hdr[k + 1:j]
                ret = hdr[j + 1:].strip()
                if ret.startswith("->"):
                    ret = ret[2:].strip()
                f = Function(name, hdr, line)
                for a in split_top(argtxt):
                    m = re.match(r"_(\d+): (.*)", a, flags=re.S)
                    if m:
                        f.args.append((int(m.group(1)), m.group(2).strip()))
                        f.locals[int(m.group(1))] = m.group(2).strip()
                f.ret = ret
                cur = f
                cur.start_line = i
            elif line.startswith("const ") and line.rstrip().endswith("= {") and re.match(r"const (.*::promoted\[\d+\]): ", line):
                m = re.match(r"const (.*::promoted\[\d+\]): (.*) = \{$", line.rstrip())
                f = Function(m.group(1), line, line)
                f.ret = m.group(2)
                cur = f
                cur.start_line = i
            elif line.startswith("const ") and line.rstrip().endswith("= {") and re.match(r"const ([A-Za-z_][A-Za-z0-9_:]*): ", line):
                m = re.match(r"const ([A-Za-z_][A-Za-z0-9_:]*): (.*) = \{$", line.rstrip())
                f = Function("const " + m.group(1), line, line)
                f.ret = m.group(2)
                cur = f
                cur.start_line = i
            elif line.startswith("alloc") and " (size:" in line:
                m = re.match(r"(alloc\d+) \(", line)
                name = m.group(1)
                data = bytearray()
                i += 1
                while i < n and lines[i].startswith("    "):
                    body = lines[i]
                    left = body.split("│")[0]
                    if "│" in body:
                        left = body.split("│")[1] if re.match(r"\s*0x[0-9a-f]+ │", body) else body.split("│")[0]
                    toks = left.split()
                    ok = True
                    for t in toks:
                        if re.fullmatch(r"[0-9a-f]{2}", t):
                            data.append(int(t, 16))
                        else:
                            ok = False
                    i += 1
                allocs[name] = bytes(data)
                continue
            i += 1
            continue
        # inside a function
        if line == "}":
            cur.end_line = i
            funcs.append(cur)
            cur = None
            cur_block = None
            i += 1
            continue
        s = line.strip()
        cur.text.append(line)
        m = re.match(r"let (?:mut )?_(\d+): (.*);$", s)
        if m and cur_block is None:
            cur.locals[int(m.group(1))] = m.group(2)
            i += 1
            continue
        m = re.match(r"(bb\d+)(?: \(cleanup\))?: \{$", s)
        if m:
            cur_block = m.group(1)
            cur.blocks[cur_block] = ([], None, "(cleanup)" in s)
            i += 1
            continue
        if s == "}" and cur_block is not None:
            cur_block = None
            i += 1
            continue
        if cur_block is not None and s:
            # statements may span lines: accumulate until ';' at end
            stmt = s
            while not stmt.endswith(";"):
                i += 1
                stmt += " " + lines[i].strip()
            stmts, term, cl = cur.blocks[cur_block]
            stmts.append(stmt)
            i += 1
            continue
        m = re.match(r"debug (\w+) => (.*);$", s)
        if m:
            cur.debug[m.group(1)] = m.group(2)
        i += 1
    return funcs, allocs


def find_arglist(hdr):
    """index of the '(' that opens the MIR argument list in a `fn` header."""
    # the arg list is the last top-level (...) group before the optional ` -> ret`
    # scan for "(_1: " or "()" at depth 0 where angle depth is 0
    depth = 0
    i = 0
    n = len(hdr)
    cands = []
    while i < n:
        ch = hdr[i]
        if ch in "<{[":
            depth += 1
        elif ch in "}]":
            depth -= 1
        elif ch == ">" and (i == 0 or hdr[i - 1] != "-"):
            depth -= 1
        elif ch == "(":
            if depth == 0 and (hdr.startswith("(_1:", i) or hdr.startswith("()", i)):
                return i
            depth += 1
        elif ch == ")":
            depth -= 1
        i += 1
    raise MirUnsupported("fn header " + hdr[:100])


class Program:
    def __init__(self, path):
        self.funcs, self.allocs = parse_file(path)
        self.by_name = {}
        for f in self.funcs:
            self.by_name.setdefault(f.name, []).append(f)
        self._parsed = {}
        # closure type text -> function
        self.closures = {}
        for f in self.funcs:
            if "::{closure#" in f.name and f.args:
                ty = f.args[0][1]
                ty = ty.lstrip("&").strip()
                if ty.startswith("mut "):
                    ty = ty[4:]
                self.closures[ty] = f

    def body(self, f):
        """lazily parse statements/terminators of a function."""
        if f.name + str(f.start_line) in self._parsed:
            return self._parsed[f.name + str(f.start_line)]
        blocks = {}
        for bb, (stmts, _t, cleanup) in f.blocks.items():
            if cleanup:
                continue
            ps = []
            for s in stmts[:-1]:
                st = parse_stmt(s)
                if st is not None:
                    ps.append(st)
            term = parse_terminator(stmts[-1])
            blocks[bb] = (ps, term)
        self._parsed[f.name + str(f.start_line)] = blocks
        return blocks

    def find(self, pattern, arg0=None):
        """functions whose name matches regex `pattern` (search) and, optionally, whose first
        argument type matches regex `arg0`."""
        out = []
        for f in self.funcs:
            if re.search(pattern, f.name):
                if arg0 is None or (f.args and re.search(arg0, f.args[0][1])):
                    out.append(f)
        return out

    def find_one(self, pattern, arg0=None):
        fs = self.find(pattern, arg0)
        if len(fs) != 1:
            raise MirUnsupported(f"function lookup {pattern!r} arg0={arg0!r}: {len(fs)} candidates {[f.name for f in fs][:5]}")
        return fs[0]
