"""C11: happy eyeballs (see ob_eyeballs.py)"""
import ob_eyeballs


def obligations(prog, src, tier, seed):
    return ob_eyeballs.obligations(prog, src, tier, seed, "C11")
