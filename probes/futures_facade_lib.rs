//! Facade over futures-util: the real crate, except stream::FuturesUnordered which is
//! replaced by a small nondeterministic model (poll members, yield any ready one).
pub use real_futures_util::*;

pub mod stream {
    pub use real_futures_util::stream::*;
    use std::future::Future;
    use std::pin::Pin;
    use std::task::{Context, Poll};


    #[derive(Debug)]
    pub struct FuturesUnordered<F> { items: Vec<Option<Pin<Box<F>>>>, live: usize }

    impl<F> Default for FuturesUnordered<F> { fn default() -> Self { Self::new() } }

    impl<F> FuturesUnordered<F> {
        pub fn new() -> Self { Self { items: Vec::new(), live: 0 } }
        pub fn len(&self) -> usize { self.live }
        pub fn is_empty(&self) -> bool { self.live == 0 }
        pub fn push(&mut self, f: F) { self.items.push(Some(Box::pin(f))); self.live += 1; }
    }

    impl<F> Unpin for FuturesUnordered<F> {}

    impl<F: Future> futures_core::Stream for FuturesUnordered<F> {
        type Item = F::Output;
        fn poll_next(mut self: Pin<&mut Self>, cx: &mut Context<'_>) -> Poll<Option<Self::Item>> {
            if self.live == 0 { return Poll::Ready(None); }
            let n = self.items.len();
            let mut idx = 0;
            while idx < n {
                if let Some(f) = self.items[idx].as_mut() {
                    if let Poll::Ready(v) = f.as_mut().poll(cx) {
                        self.items[idx] = None;
                        self.live -= 1;
                        return Poll::Ready(Some(v));
                    }
                }
                idx += 1;
            }
            Poll::Pending
        }
    }
}
