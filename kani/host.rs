//! probes
#![allow(unsafe_code, dead_code, missing_docs, unused_imports)]
use super::*;
use std::convert::TryFrom;

fn auth(b: &'static [u8]) -> http::uri::Authority {
    unsafe { std::mem::transmute::<bytes::Bytes, http::uri::Authority>(bytes::Bytes::from_static(b)) }
}

pub fn p_auth_host() {
    let a = auth(b"a.b:81");
    assert!(a.host() == "a.b");
    kani::cover!(true, "end");
    std::mem::forget(a);
}
pub fn p_auth_port() {
    let a = auth(b"a.b:81");
    assert!(a.port_u16() == Some(81));
    kani::cover!(true, "end");
    std::mem::forget(a);
}
pub fn p_uri_parts() {
    let a = auth(b"a.b:81");
    let mut parts = http::uri::Parts::default();
    parts.scheme = Some(http::uri::Scheme::HTTP);
    parts.authority = Some(a);
    parts.path_and_query = Some(unsafe { std::mem::transmute::<(bytes::Bytes, u16), http::uri::PathAndQuery>((bytes::Bytes::from_static(b"/x"), u16::MAX)) });
    let u = Uri::from_parts(parts).unwrap();
    assert!(!is_schema_secure(&u));
    kani::cover!(true, "end");
    std::mem::forget(u);
}
