//! C19: `service::timeout::{Timeout, TimeoutFuture}` under the facade's virtual clock.
#![allow(unsafe_code, dead_code, missing_docs, unused_imports, static_mut_refs)]
use super::*;
use std::future::Future;
use std::pin::Pin;
use std::task::{Context, Poll};

static mut INNER_DROPPED: bool = false;
static mut INNER_POLLS: u8 = 0;

pub struct Inner {
    ready_at: u64,
    never: bool,
    val: Result<u8, u8>,
}
impl Future for Inner {
    type Output = Result<u8, u8>;
    fn poll(self: Pin<&mut Self>, _cx: &mut Context<'_>) -> Poll<Self::Output> {
        unsafe { INNER_POLLS += 1; }
        if !self.never && tokio::vrt::now() >= self.ready_at { Poll::Ready(self.val) } else { Poll::Pending }
    }
}
impl Drop for Inner {
    fn drop(&mut self) {
        unsafe { INNER_DROPPED = true; }
    }
}

pub struct Svc {
    ready_at: u64,
    never: bool,
    val: Result<u8, u8>,
}
impl tower::Service<()> for Svc {
    type Response = u8;
    type Error = u8;
    type Future = Inner;
    fn poll_ready(&mut self, _cx: &mut Context<'_>) -> Poll<Result<(), u8>> { Poll::Ready(Ok(())) }
    fn call(&mut self, _req: ()) -> Inner { Inner { ready_at: self.ready_at, never: self.never, val: self.val } }
}

fn terr() -> u8 { 255 }

/// For EVERY schedule of up to `npolls` polls at arbitrary non-decreasing instants t_i >= t0
/// (t0 = instant the request is issued through `Timeout::call`), each poll obeys:
///   inner ready by t_i            => Ready(inner's result, unchanged)
///   else t_i >= t0 + duration     => Ready(Err(configured error))
///   else                          => Pending
/// and once Ready, dropping the future drops the inner work.  This per-poll contract implies
/// "resolves no later than the deadline" for any runtime that polls at or after the timer fires.
#[inline(always)]
pub fn timeout_schedule(npolls: usize) {
    let t0: u64 = kani::any();
    kani::assume(t0 <= 1_000_000);
    let d: u64 = kani::any();
    kani::assume(d <= 1000);
    let ready_at: u64 = kani::any();
    let never: bool = kani::any();
    let ok: bool = kani::any();
    let v: u8 = kani::any();
    kani::assume(v != 255);
    let val = if ok { Ok(v) } else { Err(v) };
    tokio::vrt::set_now(t0);
    let mut svc = Timeout::new(Svc { ready_at, never, val }, std::time::Duration::from_nanos(d), Box::new(terr as fn() -> u8));
    let mut fut = Box::pin(tower::Service::call(&mut svc, ()));
    let waker = crate::__verif::noop_waker();
    let mut cx = Context::from_waker(&waker);
    let mut now = t0;
    let mut i = 0;
    let mut done = false;
    while i < npolls && !done {
        let t: u64 = kani::any();
        kani::assume(t >= now && t <= 2_000_000);
        now = t;
        tokio::vrt::set_now(now);
        let inner_ready = !never && now >= ready_at;
        match fut.as_mut().poll(&mut cx) {
            Poll::Ready(r) => {
                if inner_ready {
                    assert!(r == val, "inner result altered or replaced by the timeout error");
                } else {
                    assert!(now >= t0 + d, "timed out before the configured duration elapsed");
                    assert!(r == Err(255), "expiry did not produce the configured error");
                }
                done = true;
                kani::cover!(inner_ready, "inner result returned");
                kani::cover!(!inner_ready, "timeout error returned");
            }
            Poll::Pending => {
                assert!(!inner_ready, "inner was ready but the layer stayed pending");
                assert!(now < t0 + d, "deadline passed but the layer stayed pending");
            }
        }
        i += 1;
    }
    if done {
        drop(fut);
        assert!(unsafe { INNER_DROPPED }, "inner work outlives the resolved request");
    } else {
        std::mem::forget(fut);
    }
    kani::cover!(true, "end reached");
}

/// `poll_ready` passes the inner service's readiness through.
pub fn timeout_poll_ready() {
    let mut svc = Timeout::new(Svc { ready_at: 0, never: false, val: Ok(1) }, std::time::Duration::from_nanos(5), Box::new(terr as fn() -> u8));
    let waker = crate::__verif::noop_waker();
    let mut cx = Context::from_waker(&waker);
    assert!(matches!(tower::Service::poll_ready(&mut svc, &mut cx), Poll::Ready(Ok(()))));
    kani::cover!(true, "end reached");
}
