//! Harnesses for `crate::rewind` (C08-4, C18) and accessors other harness modules need.
#![allow(unsafe_code, dead_code, missing_docs, unused_imports)]
use super::*;
use std::pin::Pin;
use std::task::{Context, Poll};

/// Private-field accessor for sibling harness modules (the crate's own `into_parts` is cfg(test)).
pub(crate) fn parts<R>(r: Rewind<R>) -> (R, Option<Bytes>) {
    (r.inner, r.prefix)
}
pub(crate) fn prefix_ref<R>(r: &Rewind<R>) -> Option<&Bytes> {
    r.prefix.as_ref()
}

/// Mock hyper-side IO: records whether it was touched; yields `k` symbolic bytes / Pending / Err.
pub struct Inner {
    pub data: [u8; 8],
    pub k: usize,
    pub mode: u8, // 0 = Ready(k bytes), 1 = Pending, 2 = Err
    pub reads: u8,
    pub writes: u8,
    pub last_write_ptr: usize,
    pub last_write_len: usize,
    pub write_ret: usize,
    pub flushes: u8,
    pub shutdowns: u8,
}
impl Inner {
    pub fn new(data: [u8; 8], k: usize, mode: u8) -> Self {
        Inner { data, k, mode, reads: 0, writes: 0, last_write_ptr: 0, last_write_len: 0, write_ret: 0, flushes: 0, shutdowns: 0 }
    }
}
impl Read for Inner {
    fn poll_read(mut self: Pin<&mut Self>, _cx: &mut Context<'_>, mut buf: ReadBufCursor<'_>) -> Poll<std::io::Result<()>> {
        self.reads += 1;
        match self.mode {
            1 => Poll::Pending,
            2 => Poll::Ready(Err(std::io::Error::from(std::io::ErrorKind::Other))),
            _ => {
                let room = unsafe { buf.as_mut().len() };
                let k = if self.k < room { self.k } else { room };
                unsafe {
                    std::ptr::copy_nonoverlapping(self.data.as_ptr(), buf.as_mut().as_mut_ptr() as *mut u8, k);
                    buf.advance(k);
                }
                Poll::Ready(Ok(()))
            }
        }
    }
}
impl Write for Inner {
    fn poll_write(mut self: Pin<&mut Self>, _cx: &mut Context<'_>, buf: &[u8]) -> Poll<Result<usize, std::io::Error>> {
        self.writes += 1;
        self.last_write_ptr = buf.as_ptr() as usize;
        self.last_write_len = buf.len();
        match self.mode {
            1 => Poll::Pending,
            2 => Poll::Ready(Err(std::io::Error::from(std::io::ErrorKind::Other))),
            _ => Poll::Ready(Ok(self.write_ret)),
        }
    }
    fn poll_flush(mut self: Pin<&mut Self>, _cx: &mut Context<'_>) -> Poll<Result<(), std::io::Error>> {
        self.flushes += 1;
        match self.mode {
            1 => Poll::Pending,
            2 => Poll::Ready(Err(std::io::Error::from(std::io::ErrorKind::Other))),
            _ => Poll::Ready(Ok(())),
        }
    }
    fn poll_shutdown(mut self: Pin<&mut Self>, _cx: &mut Context<'_>) -> Poll<Result<(), std::io::Error>> {
        self.shutdowns += 1;
        match self.mode {
            1 => Poll::Pending,
            2 => Poll::Ready(Err(std::io::Error::from(std::io::ErrorKind::Other))),
            _ => Poll::Ready(Ok(())),
        }
    }
}

/// C08-4 / C18: `Rewind::poll_read` with a prefix of `p` symbolic bytes and a destination with
/// `r` bytes of room, inner chunk size `k` (all concrete per instance), inner readiness symbolic.
///
/// Spec: if p > 0: exactly min(p, r) prefix bytes are delivered, in order; the remaining p-min
/// bytes stay queued in order; the inner stream is not touched.  If p == 0 the call is exactly
/// the inner stream's poll_read.
#[inline(always)]
pub fn rewind_read(p: usize, r: usize, k: usize, with_prefix: bool) {
    let pre: [u8; 24] = kani::any();
    let data: [u8; 8] = kani::any();
    assert!(k <= 8);
    let mode: u8 = kani::any();
    kani::assume(mode <= 2);
    // `prefix: None` only arises after a drained prefix; `Some(empty)` from an empty sniff buffer
    let mut rw = Rewind { inner: Inner::new(data, k, mode), prefix: if with_prefix || p > 0 { Some(Bytes::copy_from_slice(&pre[..p])) } else { None } };
    let mut storage = [std::mem::MaybeUninit::<u8>::uninit(); 32];
    let mut rb = hyper::rt::ReadBuf::uninit(&mut storage[..r]);
    let waker = crate::__verif::noop_waker();
    let mut cx = Context::from_waker(&waker);
    let res = Read::poll_read(Pin::new(&mut rw), &mut cx, rb.unfilled());
    let filled = rb.filled();
    if p > 0 {
        let n = if p < r { p } else { r };
        assert!(matches!(res, Poll::Ready(Ok(()))));
        assert!(filled.len() == n);
        let mut i = 0;
        while i < n {
            assert!(filled[i] == pre[i]);
            i += 1;
        }
        assert!(rw.inner.reads == 0);
        if n < p {
            let rest = rw.prefix.as_ref().unwrap();
            assert!(rest.len() == p - n);
            let mut i = 0;
            while i < p - n {
                assert!(rest[i] == pre[n + i]);
                i += 1;
            }
        } else {
            assert!(rw.prefix.is_none());
        }
    } else {
        assert!(rw.inner.reads == 1);
        match res {
            Poll::Pending => {
                assert!(mode == 1);
                assert!(filled.len() == 0);
            }
            Poll::Ready(Err(e)) => {
                assert!(mode == 2);
                assert!(filled.len() == 0);
                std::mem::forget(e);
            }
            Poll::Ready(Ok(())) => {
                assert!(mode == 0);
                let n = if k < r { k } else { r };
                assert!(filled.len() == n);
                let mut i = 0;
                while i < n {
                    assert!(filled[i] == data[i]);
                    i += 1;
                }
            }
        }
        assert!(rw.prefix.is_none());
    }
    kani::cover!(true, "reached end");
    std::mem::forget(rw);
}

/// C18: writes / flush / shutdown are forwarded untouched while a prefix is pending.
#[inline(always)]
pub fn rewind_write(p: usize) {
    let pre: [u8; 24] = kani::any();
    let mode: u8 = kani::any();
    kani::assume(mode <= 2);
    let write_ret: usize = kani::any();
    let mut inner = Inner::new([0; 8], 0, mode);
    inner.write_ret = write_ret;
    let mut rw = Rewind { inner, prefix: Some(Bytes::copy_from_slice(&pre[..p])) };
    let waker = crate::__verif::noop_waker();
    let mut cx = Context::from_waker(&waker);
    let out: [u8; 5] = kani::any();
    let op: u8 = kani::any();
    kani::assume(op <= 2);
    match op {
        0 => {
            let res = Write::poll_write(Pin::new(&mut rw), &mut cx, &out[..]);
            assert!(rw.inner.writes == 1 && rw.inner.last_write_ptr == out.as_ptr() as usize && rw.inner.last_write_len == 5);
            match res {
                Poll::Pending => assert!(mode == 1),
                Poll::Ready(Ok(n)) => assert!(mode == 0 && n == write_ret),
                Poll::Ready(Err(e)) => {
                    assert!(mode == 2);
                    std::mem::forget(e);
                }
            }
        }
        1 => {
            let res = Write::poll_flush(Pin::new(&mut rw), &mut cx);
            assert!(rw.inner.flushes == 1 && rw.inner.writes == 0);
            match res {
                Poll::Pending => assert!(mode == 1),
                Poll::Ready(Ok(())) => assert!(mode == 0),
                Poll::Ready(Err(e)) => {
                    assert!(mode == 2);
                    std::mem::forget(e);
                }
            }
        }
        _ => {
            let res = Write::poll_shutdown(Pin::new(&mut rw), &mut cx);
            assert!(rw.inner.shutdowns == 1 && rw.inner.writes == 0);
            match res {
                Poll::Pending => assert!(mode == 1),
                Poll::Ready(Ok(())) => assert!(mode == 0),
                Poll::Ready(Err(e)) => {
                    assert!(mode == 2);
                    std::mem::forget(e);
                }
            }
        }
    }
    // prefix untouched
    let rest = rw.prefix.as_ref().unwrap();
    assert!(rest.len() == p);
    let mut i = 0;
    while i < p {
        assert!(rest[i] == pre[i]);
        i += 1;
    }
    kani::cover!(true, "reached end");
    std::mem::forget(rw);
}
