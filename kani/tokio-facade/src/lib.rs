//! Facade over tokio: everything is the real crate except `spawn` and `time`,
//! which are replaced by a deterministic virtual-time / deferred-task model.
#![allow(static_mut_refs)]
pub use real_tokio::*;

use std::future::Future;
use std::pin::Pin;
use std::task::{Context, Poll};

pub mod vrt {
    use super::*;
    pub type Task = Pin<Box<dyn Future<Output = ()> + Send + 'static>>;
    pub static mut SPAWNED: Vec<Task> = Vec::new();
    pub static mut NOW: u64 = 0;
    /// earliest deadline registered by a pending timer since last reset
    pub static mut NEXT_DEADLINE: u64 = u64::MAX;
    pub fn now() -> u64 { unsafe { NOW } }
    pub fn set_now(t: u64) { unsafe { NOW = t; NEXT_DEADLINE = u64::MAX; } }
    pub fn next_deadline() -> u64 { unsafe { NEXT_DEADLINE } }
    pub fn note_deadline(d: u64) { unsafe { if d < NEXT_DEADLINE { NEXT_DEADLINE = d; } } }
}

/// Inert join handle. All call sites in hyperdriver's library code discard it; it implements
/// `Future` (never ready) only so that the crate's own cfg(test) code still type-checks when a
/// counterexample is replayed natively with `cargo kani playback`.
pub struct SpawnHandle<T>(std::marker::PhantomData<fn() -> T>);
#[derive(Debug)]
pub struct FacadeJoinError;
impl<T> Future for SpawnHandle<T> {
    type Output = Result<T, FacadeJoinError>;
    fn poll(self: Pin<&mut Self>, _cx: &mut Context<'_>) -> Poll<Self::Output> { Poll::Pending }
}
impl<T> SpawnHandle<T> {
    pub fn abort(&self) {}
    pub fn is_finished(&self) -> bool { false }
}

pub fn spawn<F>(future: F) -> SpawnHandle<F::Output>
where
    F: Future + Send + 'static,
    F::Output: Send + 'static,
{
    let t: vrt::Task = Box::pin(async move { let _ = future.await; });
    unsafe { vrt::SPAWNED.push(t); }
    SpawnHandle(std::marker::PhantomData)
}

pub mod task {
    pub use real_tokio::task::*;
    pub use super::spawn;
}

pub mod time {
    use super::*;
    pub use std::time::Duration;

    fn to_units(d: Duration) -> u64 {
        let n = d.as_nanos();
        if n > (u64::MAX / 4) as u128 { u64::MAX / 4 } else { n as u64 }
    }

    #[derive(Debug)]
    pub struct Sleep { deadline: u64 }

    pub fn sleep(d: Duration) -> Sleep { Sleep { deadline: vrt::now().saturating_add(to_units(d)) } }

    impl Sleep {
        /// tokio API: true once the deadline has passed
        pub fn is_elapsed(&self) -> bool { vrt::now() >= self.deadline }
    }

    impl Future for Sleep {
        type Output = ();
        fn poll(self: Pin<&mut Self>, _cx: &mut Context<'_>) -> Poll<()> {
            if vrt::now() >= self.deadline { Poll::Ready(()) } else { vrt::note_deadline(self.deadline); Poll::Pending }
        }
    }

    pub mod error {
        #[derive(Debug, PartialEq, Eq)]
        pub struct Elapsed(pub(crate) ());
        impl std::fmt::Display for Elapsed { fn fmt(&self, f: &mut std::fmt::Formatter<'_>) -> std::fmt::Result { f.write_str("deadline has elapsed") } }
        impl std::error::Error for Elapsed {}
    }

    pub struct Timeout<F> { fut: F, delay: Sleep }

    pub fn timeout<F: std::future::IntoFuture>(d: Duration, f: F) -> Timeout<F::IntoFuture> {
        Timeout { fut: f.into_future(), delay: sleep(d) }
    }

    impl<F: Future> Future for Timeout<F> {
        type Output = Result<F::Output, error::Elapsed>;
        fn poll(self: Pin<&mut Self>, cx: &mut Context<'_>) -> Poll<Self::Output> {
            // same order as tokio: the value first, then the delay
            let this = unsafe { self.get_unchecked_mut() };
            if let Poll::Ready(v) = unsafe { Pin::new_unchecked(&mut this.fut) }.poll(cx) { return Poll::Ready(Ok(v)); }
            match Pin::new(&mut this.delay).poll(cx) {
                Poll::Ready(()) => Poll::Ready(Err(error::Elapsed(()))),
                Poll::Pending => Poll::Pending,
            }
        }
    }
}
