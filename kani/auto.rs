//! Harnesses for `server::conn::auto::ReadVersion` (C08) and the sniffing-state shutdown (C07-3).
#![allow(unsafe_code, dead_code, missing_docs, unused_imports)]
use super::*;

const L: usize = 24;

/// Scripted hyper-side reader: yields `ks[i]` bytes from `data` on read i (i < nreads), then
/// `tail` (1 = Pending, 2 = Err).  Chunk sizes are concrete per harness instance, bytes symbolic.
pub struct StepReader {
    pub data: [u8; L],
    pub off: usize,
    pub ks: [usize; 2],
    pub nreads: usize,
    pub done: usize,
    pub tail: u8,
}

impl Read for StepReader {
    fn poll_read(mut self: Pin<&mut Self>, _cx: &mut Context<'_>, mut buf: hyper::rt::ReadBufCursor<'_>) -> Poll<io::Result<()>> {
        if self.done >= self.nreads {
            return if self.tail == 2 { Poll::Ready(Err(io::Error::from(io::ErrorKind::Other))) } else { Poll::Pending };
        }
        let k = self.ks[self.done];
        self.done += 1;
        let room = unsafe { buf.as_mut().len() };
        assert!(k <= room, "harness instance asks for more bytes than the sniff window has room for");
        let off = self.off;
        unsafe {
            std::ptr::copy_nonoverlapping(self.data.as_ptr().add(off), buf.as_mut().as_mut_ptr() as *mut u8, k);
            buf.advance(k);
        }
        self.off += k;
        Poll::Ready(Ok(()))
    }
}

/// An arbitrary reachable undecided state I(f): f bytes consumed, all equal to the preface.
fn state(f: usize, rdr: StepReader) -> ReadVersion<StepReader> {
    let mut rv = ReadVersion::new(rdr);
    let mut i = 0;
    while i < f {
        rv.buf[i] = MaybeUninit::new(HTTP2_PREFIX[i]);
        i += 1;
    }
    rv.filled = f;
    rv
}

/// C08 step: from I(f), one `poll` in which the stream yields k1 bytes, then (if n == 2) k2 bytes,
/// then Pending/Err.  `data[..k1+k2]` symbolic.
///
/// Reference: let s = PREFACE[..f] ++ data[..]; the poll consumes chunk by chunk; after each
/// chunk the verdict is HTTP/1 if the chunk is empty (EOF) or the consumed bytes are not a prefix
/// of the preface, HTTP/2 if all 24 preface bytes were consumed, else undecided.
#[inline(always)]
pub fn c08_step(f: usize, n: usize, k1: usize, k2: usize, tail: u8) {
    let data: [u8; L] = kani::any();
    let rdr = StepReader { data, off: 0, ks: [k1, k2], nreads: n, done: 0, tail };
    let mut rv = state(f, rdr);
    let waker = crate::__verif::noop_waker();
    let mut cx = Context::from_waker(&waker);
    let r = Pin::new(&mut rv).poll(&mut cx);

    // ---- reference -----------------------------------------------------------------------
    // consumed: number of bytes of `data` the detector is allowed to have consumed when it
    // decides; verdict: 0 undecided, 1 http1, 2 http2
    let mut consumed = 0usize;
    let mut verdict = 0u8;
    let mut ci = 0;
    while ci < n {
        let k = if ci == 0 { k1 } else { k2 };
        if verdict == 0 {
            if k == 0 {
                verdict = 1;
            } else {
                let mut diverges = false;
                let mut i = 0;
                while i < k {
                    if data[consumed + i] != HTTP2_PREFIX[f + consumed + i] {
                        diverges = true;
                    }
                    i += 1;
                }
                consumed += k;
                if diverges {
                    verdict = 1;
                } else if f + consumed == L {
                    verdict = 2;
                }
            }
        }
        ci += 1;
    }

    match r {
        Poll::Pending => {
            assert!(verdict == 0, "Pending although the bytes seen so far decide the protocol");
            assert!(tail == 1);
            assert!(rv.filled == f + consumed, "consumed byte count lost across Pending");
            assert!(rv.version == HttpProtocol::Http2, "state left decided while still undecided");
            assert!(rv.io.is_some());
            // I(f + consumed) again: the buffered bytes are the bytes read, in order
            let mut i = 0;
            while i < consumed {
                assert!(unsafe { rv.buf[f + i].assume_init() } == data[i]);
                i += 1;
            }
            let mut i = 0;
            while i < f {
                assert!(unsafe { rv.buf[i].assume_init() } == HTTP2_PREFIX[i]);
                i += 1;
            }
            kani::cover!(true, "pending reached");
        }
        Poll::Ready(Ok((version, rewind))) => {
            assert!(verdict != 0, "decided without evidence");
            if verdict == 1 {
                assert!(version == HttpProtocol::Http1, "served as HTTP/2 although the stream does not start with the preface");
            } else {
                assert!(version == HttpProtocol::Http2, "served as HTTP/1 although the stream starts with the HTTP/2 preface");
            }
            let (io, prefix) = crate::rewind::__verif::parts(rewind);
            let prefix = prefix.unwrap();
            // the protocol handler must see exactly the consumed bytes, in order
            assert!(prefix.len() == f + consumed, "rewind prefix length differs from bytes consumed");
            assert!(io.off == consumed);
            let mut i = 0;
            while i < f {
                assert!(prefix[i] == HTTP2_PREFIX[i]);
                i += 1;
            }
            let mut i = 0;
            while i < consumed {
                assert!(prefix[f + i] == data[i], "rewind prefix bytes differ from bytes read");
                i += 1;
            }
            kani::cover!(true, "ready reached");
            std::mem::forget(prefix);
        }
        Poll::Ready(Err(e)) => {
            assert!(verdict == 0 && tail == 2, "I/O error invented");
            std::mem::forget(e);
            kani::cover!(true, "err reached");
        }
    }
    std::mem::forget(rv);
}

/// Base case: `ReadVersion::new` satisfies I(0).
pub fn c08_base() {
    let rdr = StepReader { data: [0; L], off: 0, ks: [0, 0], nreads: 0, done: 0, tail: 1 };
    let rv = ReadVersion::new(rdr);
    assert!(rv.filled == 0);
    assert!(rv.version == HttpProtocol::Http2);
    assert!(rv.io.is_some());
    assert!(!rv.cancelled);
    kani::cover!(true, "base reached");
    std::mem::forget(rv);
}

/// C07-3: a graceful shutdown requested while still sniffing ends the connection at its next
/// poll with `Interrupted`, without reading and without serving anything.
#[inline(always)]
pub fn c07_cancel_while_sniffing(f: usize) {
    let data: [u8; L] = kani::any();
    let rdr = StepReader { data, off: 0, ks: [L - f, 0], nreads: 1, done: 0, tail: 1 };
    let mut rv = state(f, rdr);
    Pin::new(&mut rv).cancel();
    let waker = crate::__verif::noop_waker();
    let mut cx = Context::from_waker(&waker);
    match Pin::new(&mut rv).poll(&mut cx) {
        Poll::Ready(Err(e)) => {
            assert!(e.kind() == io::ErrorKind::Interrupted);
            std::mem::forget(e);
        }
        _ => panic!("cancelled sniffing connection kept running"),
    }
    assert!(rv.io.as_ref().unwrap().done == 0, "stream read after shutdown was requested");
    kani::cover!(true, "end reached");
    std::mem::forget(rv);
}
