//! Common harness utilities and environment stubs (crate root, `crate::__verif`).
//! Compiled only under cfg(kani); never part of a normal build of hyperdriver.
#![allow(unsafe_code, dead_code, missing_docs, static_mut_refs, unused_imports)]

use std::task::{RawWaker, RawWakerVTable, Waker};

fn noop_raw() -> RawWaker {
    fn no(_: *const ()) {}
    fn cl(_: *const ()) -> RawWaker {
        noop_raw()
    }
    static VT: RawWakerVTable = RawWakerVTable::new(cl, no, no, no);
    RawWaker::new(std::ptr::null(), &VT)
}

/// A waker that does nothing. Wake-ups are not modelled: harnesses re-poll explicitly.
pub fn noop_waker() -> Waker {
    unsafe { Waker::from_raw(noop_raw()) }
}

// ---------------------------------------------------------------------------------------------
// Stubs (every use is listed in the evidence of the check that uses it)
// ---------------------------------------------------------------------------------------------

/// `std::hash::RandomState::new` with fixed keys (SipHash with random keys makes hashbrown's
/// probing symbolic).
pub fn rs_new() -> std::hash::RandomState {
    unsafe { std::mem::transmute::<[u64; 2], std::hash::RandomState>([1, 2]) }
}

/// parking_lot slow paths: harnesses are single-threaded, the lock is never contended.
#[cfg(feature = "client")]
pub fn lock_slow_stub(_s: &parking_lot::RawMutex, _t: Option<std::time::Instant>) -> bool {
    kani::assume(false);
    true
}
#[cfg(feature = "client")]
pub fn unlock_slow_stub(_s: &parking_lot::RawMutex, _f: bool) {
    kani::assume(false);
}

/// "no tracing subscriber installed"
pub fn get_default_stub<T, F>(mut f: F) -> T
where
    F: FnMut(&tracing::Dispatch) -> T,
{
    f(&tracing::Dispatch::none())
}
pub fn register_stub(_s: &'static tracing::callsite::DefaultCallsite) -> tracing::subscriber::Interest {
    tracing::subscriber::Interest::never()
}

/// Virtual wall clock for `std::time::Instant::now` : (secs, nanos), no division.
pub static mut CLOCK_SECS: u64 = 0;
pub static mut CLOCK_NANOS: u32 = 0;
pub fn instant_now_stub() -> std::time::Instant {
    unsafe { std::mem::transmute::<[u64; 2], std::time::Instant>([1_000_000 + CLOCK_SECS, CLOCK_NANOS as u64]) }
}
pub fn set_clock(s: u64, n: u32) {
    unsafe {
        CLOCK_SECS = s;
        CLOCK_NANOS = n;
    }
}

/// `alloc::fmt::format` where only a log / error message is built.
pub fn format_stub(_args: std::fmt::Arguments<'_>) -> String {
    String::new()
}

// ---------------------------------------------------------------------------------------------
// Mock tokio-side IO whose calls are recorded in a global, for the generic adapter harnesses (C18)
// ---------------------------------------------------------------------------------------------
use std::io::IoSlice;
use std::pin::Pin;
use std::task::{Context, Poll};

#[derive(Debug, Clone, Copy, PartialEq, Eq)]
pub struct KAddr;
impl std::fmt::Display for KAddr {
    fn fmt(&self, _f: &mut std::fmt::Formatter<'_>) -> std::fmt::Result {
        Ok(())
    }
}

pub struct IoRec {
    pub reads: u8,
    pub calls: u8,
    pub op: u8, // 1 write, 2 flush, 3 shutdown, 4 write_vectored
    pub ptr: usize,
    pub len: usize,
    pub who: u8,
}
pub static mut IOREC: IoRec = IoRec { reads: 0, calls: 0, op: 0, ptr: 0, len: 0, who: 0 };

#[derive(Debug)]
pub struct MockIo {
    pub id: u8,
    pub data: [u8; 8],
    pub k: usize,
    pub mode: u8, // 0 ready, 1 pending, 2 err
    pub ret: usize,
    pub vectored: bool,
}
impl MockIo {
    fn res<T>(&self, v: T) -> Poll<Result<T, std::io::Error>> {
        match self.mode {
            1 => Poll::Pending,
            2 => Poll::Ready(Err(std::io::Error::from(std::io::ErrorKind::Other))),
            _ => Poll::Ready(Ok(v)),
        }
    }
}
impl crate::info::HasConnectionInfo for MockIo {
    type Addr = KAddr;
    fn info(&self) -> crate::info::ConnectionInfo<KAddr> {
        crate::info::ConnectionInfo { local_addr: KAddr, remote_addr: KAddr }
    }
}
impl tokio::io::AsyncRead for MockIo {
    fn poll_read(self: Pin<&mut Self>, _cx: &mut Context<'_>, buf: &mut tokio::io::ReadBuf<'_>) -> Poll<std::io::Result<()>> {
        unsafe {
            IOREC.reads += 1;
            IOREC.who = self.id;
        }
        match self.mode {
            1 => Poll::Pending,
            2 => Poll::Ready(Err(std::io::Error::from(std::io::ErrorKind::Other))),
            _ => {
                let k = if self.k < buf.remaining() { self.k } else { buf.remaining() };
                buf.put_slice(&self.data[..k]);
                Poll::Ready(Ok(()))
            }
        }
    }
}
impl tokio::io::AsyncWrite for MockIo {
    fn poll_write(self: Pin<&mut Self>, _cx: &mut Context<'_>, buf: &[u8]) -> Poll<Result<usize, std::io::Error>> {
        unsafe {
            IOREC.calls += 1; IOREC.op = 1; IOREC.ptr = buf.as_ptr() as usize; IOREC.len = buf.len(); IOREC.who = self.id;
        }
        self.res(self.ret)
    }
    fn poll_flush(self: Pin<&mut Self>, _cx: &mut Context<'_>) -> Poll<Result<(), std::io::Error>> {
        unsafe { IOREC.calls += 1; IOREC.op = 2; IOREC.who = self.id; }
        self.res(())
    }
    fn poll_shutdown(self: Pin<&mut Self>, _cx: &mut Context<'_>) -> Poll<Result<(), std::io::Error>> {
        unsafe { IOREC.calls += 1; IOREC.op = 3; IOREC.who = self.id; }
        self.res(())
    }
    fn is_write_vectored(&self) -> bool {
        self.vectored
    }
    fn poll_write_vectored(self: Pin<&mut Self>, _cx: &mut Context<'_>, bufs: &[IoSlice<'_>]) -> Poll<Result<usize, std::io::Error>> {
        unsafe {
            IOREC.calls += 1; IOREC.op = 4; IOREC.ptr = bufs.as_ptr() as usize; IOREC.len = bufs.len(); IOREC.who = self.id;
        }
        self.res(self.ret)
    }
}

/// Generic C18 obligation for a tokio-side wrapper `W` around one `MockIo` (id 7):
/// op 0 = read into a buffer of capacity `c` with `pre` bytes filled, inner chunk `k`;
/// op 1..3 = write / flush / shutdown.  Everything must reach MockIo 7 exactly once and come back
/// unchanged.
#[inline(always)]
pub fn adapter_op<W, F>(mk: F, op: u8, c: usize, pre: usize, k: usize)
where
    W: tokio::io::AsyncRead + tokio::io::AsyncWrite + Unpin,
    F: FnOnce(MockIo) -> W,
{
    use tokio::io::{AsyncRead, AsyncWrite};
    let data: [u8; 8] = kani::any();
    let prefill: [u8; 4] = kani::any();
    let mode: u8 = kani::any();
    kani::assume(mode <= 2);
    let ret: usize = kani::any();
    let mut w = mk(MockIo { id: 7, data, k, mode, ret, vectored: false });
    let waker = noop_waker();
    let mut cx = Context::from_waker(&waker);
    if op == 0 {
        let mut storage = [std::mem::MaybeUninit::<u8>::uninit(); 16];
        let mut rb = tokio::io::ReadBuf::uninit(&mut storage[..c]);
        rb.put_slice(&prefill[..pre]);
        let r = AsyncRead::poll_read(Pin::new(&mut w), &mut cx, &mut rb);
        unsafe {
            assert!(IOREC.reads == 1 && IOREC.who == 7 && IOREC.calls == 0);
        }
        let filled = rb.filled();
        let mut i = 0;
        while i < pre {
            assert!(filled[i] == prefill[i], "pre-filled bytes were disturbed");
            i += 1;
        }
        match r {
            Poll::Pending => assert!(mode == 1 && filled.len() == pre),
            Poll::Ready(Err(e)) => {
                assert!(mode == 2 && filled.len() == pre);
                std::mem::forget(e);
            }
            Poll::Ready(Ok(())) => {
                assert!(mode == 0);
                let n = if k < c - pre { k } else { c - pre };
                assert!(filled.len() == pre + n, "filled count differs from the bytes the inner stream delivered");
                let mut i = 0;
                while i < n {
                    assert!(filled[pre + i] == data[i], "delivered bytes differ from the inner stream's");
                    i += 1;
                }
            }
        }
    } else {
        let out: [u8; 6] = kani::any();
        match op {
            1 => {
                let r = AsyncWrite::poll_write(Pin::new(&mut w), &mut cx, &out[..]);
                match r {
                    Poll::Pending => assert!(mode == 1),
                    Poll::Ready(Ok(n)) => assert!(mode == 0 && n == ret, "write count altered"),
                    Poll::Ready(Err(e)) => { assert!(mode == 2); std::mem::forget(e); }
                }
                unsafe { assert!(IOREC.ptr == out.as_ptr() as usize && IOREC.len == 6, "a different buffer reached the inner stream"); }
            }
            2 => {
                let r = AsyncWrite::poll_flush(Pin::new(&mut w), &mut cx);
                match r {
                    Poll::Pending => assert!(mode == 1),
                    Poll::Ready(Ok(())) => assert!(mode == 0),
                    Poll::Ready(Err(e)) => { assert!(mode == 2); std::mem::forget(e); }
                }
            }
            _ => {
                let r = AsyncWrite::poll_shutdown(Pin::new(&mut w), &mut cx);
                match r {
                    Poll::Pending => assert!(mode == 1),
                    Poll::Ready(Ok(())) => assert!(mode == 0),
                    Poll::Ready(Err(e)) => { assert!(mode == 2); std::mem::forget(e); }
                }
            }
        }
        unsafe {
            assert!(IOREC.calls == 1 && IOREC.op == op && IOREC.who == 7 && IOREC.reads == 0, "operation not forwarded exactly once to the same inner operation");
        }
    }
    kani::cover!(true, "end reached");
    std::mem::forget(w);
}
