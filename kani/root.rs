//! Common harness utilities and environment stubs (crate root, `crate::__verif`).
//! Compiled only under cfg(kani); never part of a normal build of hyperdriver.
#![allow(unsafe_code, dead_code, missing_docs, static_mut_refs, unused_imports)]

use std::task::{RawWaker, RawWakerVTable, Waker};

fn noop_raw() -> RawWaker {
    fn no(_: *const ()) {}
    fn cl(_: *const ()) -> RawWaker {
        noop_raw()
    }
    static VT: RawWakerVTable = RawWakerVTable::new(cl, no, no, no);
    RawWaker::new(std::ptr::null(), &VT)
}

/// A waker that does nothing. Wake-ups are not modelled: harnesses re-poll explicitly.
pub fn noop_waker() -> Waker {
    unsafe { Waker::from_raw(noop_raw()) }
}

// ---------------------------------------------------------------------------------------------
// Stubs (every use is listed in the evidence of the check that uses it)
// ---------------------------------------------------------------------------------------------

/// `std::hash::RandomState::new` with fixed keys (SipHash with random keys makes hashbrown's
/// probing symbolic).
pub fn rs_new() -> std::hash::RandomState {
    unsafe { std::mem::transmute::<[u64; 2], std::hash::RandomState>([1, 2]) }
}

/// parking_lot slow paths: harnesses are single-threaded, the lock is never contended.
#[cfg(feature = "client")]
pub fn lock_slow_stub(_s: &parking_lot::RawMutex, _t: Option<std::time::Instant>) -> bool {
    kani::assume(false);
    true
}
#[cfg(feature = "client")]
pub fn unlock_slow_stub(_s: &parking_lot::RawMutex, _f: bool) {
    kani::assume(false);
}

/// "no tracing subscriber installed"
pub fn get_default_stub<T, F>(mut f: F) -> T
where
    F: FnMut(&tracing::Dispatch) -> T,
{
    f(&tracing::Dispatch::none())
}
pub fn register_stub(_s: &'static tracing::callsite::DefaultCallsite) -> tracing::subscriber::Interest {
    tracing::subscriber::Interest::never()
}

/// Virtual wall clock for `std::time::Instant::now` : (secs, nanos), no division.
pub static mut CLOCK_SECS: u64 = 0;
pub static mut CLOCK_NANOS: u32 = 0;
pub fn instant_now_stub() -> std::time::Instant {
    unsafe { std::mem::transmute::<[u64; 2], std::time::Instant>([1_000_000 + CLOCK_SECS, CLOCK_NANOS as u64]) }
}
pub fn set_clock(s: u64, n: u32) {
    unsafe {
        CLOCK_SECS = s;
        CLOCK_NANOS = n;
    }
}

/// `alloc::fmt::format` where only a log / error message is built.
pub fn format_stub(_args: std::fmt::Arguments<'_>) -> String {
    String::new()
}
