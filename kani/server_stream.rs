//! C18: `server::conn::stream::Stream<IO>` forwards every operation to its transport unchanged.
#![allow(unsafe_code, dead_code, missing_docs, unused_imports)]
use super::*;
use crate::__verif::{adapter_op, MockIo};

#[inline(always)]
pub fn server_stream_op(op: u8, c: usize, pre: usize, k: usize) {
    adapter_op(|io| Stream::new(io), op, c, pre, k);
}
