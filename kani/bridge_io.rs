//! Harnesses for `bridge::io::TokioIo` (C18): both read directions and the forwarded write half.
#![allow(unsafe_code, dead_code, missing_docs, unused_imports)]
use super::*;
use std::io::IoSlice;

/// tokio-side source: yields k bytes / Pending / Err
pub struct TokSrc {
    pub data: [u8; 8],
    pub k: usize,
    pub mode: u8,
    pub reads: u8,
    /// a tokio reader may initialise more of the buffer than it fills (`initialize_unfilled` and a short read)
    pub init_all: bool,
}
impl tokio::io::AsyncRead for TokSrc {
    fn poll_read(mut self: Pin<&mut Self>, _cx: &mut Context<'_>, buf: &mut tokio::io::ReadBuf<'_>) -> Poll<std::io::Result<()>> {
        self.reads += 1;
        match self.mode {
            1 => Poll::Pending,
            2 => Poll::Ready(Err(Error::from(std::io::ErrorKind::Other))),
            _ => {
                let k = if self.k < buf.remaining() { self.k } else { buf.remaining() };
                if self.init_all {
                    let _ = buf.initialize_unfilled();
                }
                buf.put_slice(&self.data[..k]);
                Poll::Ready(Ok(()))
            }
        }
    }
}

/// hyper-side source
pub struct HypSrc {
    pub data: [u8; 8],
    pub k: usize,
    pub mode: u8,
    pub reads: u8,
}
impl Read for HypSrc {
    fn poll_read(mut self: Pin<&mut Self>, _cx: &mut Context<'_>, mut buf: hyper::rt::ReadBufCursor<'_>) -> Poll<Result<(), Error>> {
        self.reads += 1;
        match self.mode {
            1 => Poll::Pending,
            2 => Poll::Ready(Err(Error::from(std::io::ErrorKind::Other))),
            _ => {
                let room = unsafe { buf.as_mut().len() };
                let k = if self.k < room { self.k } else { room };
                unsafe {
                    std::ptr::copy_nonoverlapping(self.data.as_ptr(), buf.as_mut().as_mut_ptr() as *mut u8, k);
                    buf.advance(k);
                }
                Poll::Ready(Ok(()))
            }
        }
    }
}

/// C18: tokio -> hyper read. Destination capacity `c`, `pre` bytes already filled, inner chunk `k`
/// (concrete per instance); byte values and readiness symbolic.
#[inline(always)]
pub fn tokio_to_hyper_read(c: usize, pre: usize, k: usize) {
    let data: [u8; 8] = kani::any();
    let prefill: [u8; 4] = kani::any();
    let mode: u8 = kani::any();
    kani::assume(mode <= 2);
    let init_all: bool = kani::any();
    let mut io = TokioIo::new(TokSrc { data, k, mode, reads: 0, init_all });
    let mut storage = [std::mem::MaybeUninit::<u8>::uninit(); 16];
    let mut rb = hyper::rt::ReadBuf::uninit(&mut storage[..c]);
    {
        let mut cur = rb.unfilled();
        unsafe {
            let m = cur.as_mut();
            let mut i = 0;
            while i < pre {
                m[i].write(prefill[i]);
                i += 1;
            }
            cur.advance(pre);
        }
    }
    let waker = crate::__verif::noop_waker();
    let mut cx = Context::from_waker(&waker);
    let r = Read::poll_read(Pin::new(&mut io), &mut cx, rb.unfilled());
    assert!(io.reads == 1);
    let filled = rb.filled();
    let mut i = 0;
    while i < pre {
        assert!(filled[i] == prefill[i], "pre-filled bytes were disturbed");
        i += 1;
    }
    match r {
        Poll::Pending => {
            assert!(mode == 1);
            assert!(filled.len() == pre);
        }
        Poll::Ready(Err(e)) => {
            assert!(mode == 2);
            assert!(filled.len() == pre);
            std::mem::forget(e);
        }
        Poll::Ready(Ok(())) => {
            assert!(mode == 0);
            let n = if k < c - pre { k } else { c - pre };
            assert!(filled.len() == pre + n, "filled count differs from the bytes the inner stream delivered");
            let mut i = 0;
            while i < n {
                assert!(filled[pre + i] == data[i], "delivered bytes differ from the inner stream's");
                i += 1;
            }
        }
    }
    kani::cover!(true, "end reached");
}

/// C18: hyper -> tokio read.
#[inline(always)]
pub fn hyper_to_tokio_read(c: usize, pre: usize, k: usize) {
    let data: [u8; 8] = kani::any();
    let prefill: [u8; 4] = kani::any();
    let mode: u8 = kani::any();
    kani::assume(mode <= 2);
    let mut io = TokioIo::new(HypSrc { data, k, mode, reads: 0 });
    let mut storage = [std::mem::MaybeUninit::<u8>::uninit(); 16];
    let mut rb = tokio::io::ReadBuf::uninit(&mut storage[..c]);
    rb.put_slice(&prefill[..pre]);
    let waker = crate::__verif::noop_waker();
    let mut cx = Context::from_waker(&waker);
    let r = tokio::io::AsyncRead::poll_read(Pin::new(&mut io), &mut cx, &mut rb);
    assert!(io.reads == 1);
    let filled = rb.filled();
    let mut i = 0;
    while i < pre {
        assert!(filled[i] == prefill[i], "pre-filled bytes were disturbed");
        i += 1;
    }
    match r {
        Poll::Pending => {
            assert!(mode == 1);
            assert!(filled.len() == pre);
        }
        Poll::Ready(Err(e)) => {
            assert!(mode == 2);
            assert!(filled.len() == pre);
            std::mem::forget(e);
        }
        Poll::Ready(Ok(())) => {
            assert!(mode == 0);
            let n = if k < c - pre { k } else { c - pre };
            assert!(filled.len() == pre + n, "filled count differs from the bytes the inner stream delivered");
            let mut i = 0;
            while i < n {
                assert!(filled[pre + i] == data[i], "delivered bytes differ from the inner stream's");
                i += 1;
            }
            assert!(rb.initialized().len() >= rb.filled().len());
        }
    }
    kani::cover!(true, "end reached");
}

// ---- write half -------------------------------------------------------------------------------

pub struct Sink {
    pub mode: u8,
    pub ret: usize,
    pub vectored: bool,
    pub op: u8, // 1 write, 2 flush, 3 shutdown, 4 write_vectored
    pub ptr: usize,
    pub len: usize,
    pub calls: u8,
}
impl Sink {
    fn res<T>(&self, v: T) -> Poll<Result<T, Error>> {
        match self.mode {
            1 => Poll::Pending,
            2 => Poll::Ready(Err(Error::from(std::io::ErrorKind::Other))),
            _ => Poll::Ready(Ok(v)),
        }
    }
}
impl tokio::io::AsyncWrite for Sink {
    fn poll_write(mut self: Pin<&mut Self>, _cx: &mut Context<'_>, buf: &[u8]) -> Poll<Result<usize, Error>> {
        self.op = 1; self.calls += 1; self.ptr = buf.as_ptr() as usize; self.len = buf.len();
        self.res(self.ret)
    }
    fn poll_flush(mut self: Pin<&mut Self>, _cx: &mut Context<'_>) -> Poll<Result<(), Error>> {
        self.op = 2; self.calls += 1;
        self.res(())
    }
    fn poll_shutdown(mut self: Pin<&mut Self>, _cx: &mut Context<'_>) -> Poll<Result<(), Error>> {
        self.op = 3; self.calls += 1;
        self.res(())
    }
    fn is_write_vectored(&self) -> bool { self.vectored }
    fn poll_write_vectored(mut self: Pin<&mut Self>, _cx: &mut Context<'_>, bufs: &[IoSlice<'_>]) -> Poll<Result<usize, Error>> {
        self.op = 4; self.calls += 1; self.ptr = bufs.as_ptr() as usize; self.len = bufs.len();
        self.res(self.ret)
    }
}
impl Write for Sink {
    fn poll_write(mut self: Pin<&mut Self>, _cx: &mut Context<'_>, buf: &[u8]) -> Poll<Result<usize, Error>> {
        self.op = 1; self.calls += 1; self.ptr = buf.as_ptr() as usize; self.len = buf.len();
        self.res(self.ret)
    }
    fn poll_flush(mut self: Pin<&mut Self>, _cx: &mut Context<'_>) -> Poll<Result<(), Error>> {
        self.op = 2; self.calls += 1;
        self.res(())
    }
    fn poll_shutdown(mut self: Pin<&mut Self>, _cx: &mut Context<'_>) -> Poll<Result<(), Error>> {
        self.op = 3; self.calls += 1;
        self.res(())
    }
    fn is_write_vectored(&self) -> bool { self.vectored }
    fn poll_write_vectored(mut self: Pin<&mut Self>, _cx: &mut Context<'_>, bufs: &[IoSlice<'_>]) -> Poll<Result<usize, Error>> {
        self.op = 4; self.calls += 1; self.ptr = bufs.as_ptr() as usize; self.len = bufs.len();
        self.res(self.ret)
    }
}

fn check_unit(r: Poll<Result<(), Error>>, mode: u8) {
    match r {
        Poll::Pending => assert!(mode == 1),
        Poll::Ready(Ok(())) => assert!(mode == 0),
        Poll::Ready(Err(e)) => { assert!(mode == 2); std::mem::forget(e); }
    }
}
fn check_n(r: Poll<Result<usize, Error>>, mode: u8, ret: usize) {
    match r {
        Poll::Pending => assert!(mode == 1),
        Poll::Ready(Ok(n)) => assert!(mode == 0 && n == ret, "write count altered"),
        Poll::Ready(Err(e)) => { assert!(mode == 2); std::mem::forget(e); }
    }
}

/// C18: every write-half operation reaches the inner stream once, with the same buffer (pointer and
/// length identity implies the same bytes), and its result is returned unchanged.
/// dir = 0: hyper::rt::Write on TokioIo<tokio sink>; dir = 1: tokio AsyncWrite on TokioIo<hyper sink>.
#[inline(always)]
pub fn write_half(dir: u8, op: u8) {
    let mode: u8 = kani::any();
    kani::assume(mode <= 2);
    let ret: usize = kani::any();
    let vectored: bool = kani::any();
    let out: [u8; 6] = kani::any();
    let a: [u8; 2] = kani::any();
    let b: [u8; 3] = kani::any();
    let slices = [IoSlice::new(&a), IoSlice::new(&b)];
    let mut io = TokioIo::new(Sink { mode, ret, vectored, op: 0, ptr: 0, len: 0, calls: 0 });
    let waker = crate::__verif::noop_waker();
    let mut cx = Context::from_waker(&waker);
    if dir == 0 {
        match op {
            1 => { let r = Write::poll_write(Pin::new(&mut io), &mut cx, &out[..]); check_n(r, mode, ret); assert!(io.ptr == out.as_ptr() as usize && io.len == 6); }
            2 => { let r = Write::poll_flush(Pin::new(&mut io), &mut cx); check_unit(r, mode); }
            3 => { let r = Write::poll_shutdown(Pin::new(&mut io), &mut cx); check_unit(r, mode); }
            4 => { let r = Write::poll_write_vectored(Pin::new(&mut io), &mut cx, &slices); check_n(r, mode, ret); assert!(io.ptr == slices.as_ptr() as usize && io.len == 2); }
            _ => { assert!(Write::is_write_vectored(&io) == vectored); }
        }
    } else {
        use tokio::io::AsyncWrite as AW;
        match op {
            1 => { let r = AW::poll_write(Pin::new(&mut io), &mut cx, &out[..]); check_n(r, mode, ret); assert!(io.ptr == out.as_ptr() as usize && io.len == 6); }
            2 => { let r = AW::poll_flush(Pin::new(&mut io), &mut cx); check_unit(r, mode); }
            3 => { let r = AW::poll_shutdown(Pin::new(&mut io), &mut cx); check_unit(r, mode); }
            4 => { let r = AW::poll_write_vectored(Pin::new(&mut io), &mut cx, &slices); check_n(r, mode, ret); assert!(io.ptr == slices.as_ptr() as usize && io.len == 2); }
            _ => { assert!(AW::is_write_vectored(&io) == vectored); }
        }
    }
    if op >= 1 && op <= 4 {
        assert!(io.calls == 1 && io.op == op, "operation not forwarded exactly once to the same inner operation");
    } else {
        assert!(io.calls == 0);
    }
    kani::cover!(true, "end reached");
}
