//! Harnesses for `client::pool::idle::IdleConnections` (C05-1).
#![allow(unsafe_code, dead_code, missing_docs, unused_imports, static_mut_refs)]
use super::*;
use crate::__verif::set_clock;
use crate::client::pool::__verif::{KConn, OPEN};

/// `n` entries pushed at symbolic non-decreasing instants, each open/closed, popped at a symbolic
/// later instant with idle_timeout in {None, Some(any <= 50 s incl. zero)}.
#[inline(always)]
pub fn idle_pop(ni: usize, has_timeout: bool) {
    let mut idle: IdleConnections<KConn, ()> = IdleConnections::default();
    let ts: u64 = kani::any();
    let tn: u32 = kani::any();
    kani::assume(ts <= 50 && tn < 1_000_000_000);
    let timeout = if has_timeout { Some(Duration::new(ts, tn)) } else { None };
    let s: [u64; 3] = kani::any();
    let n: [u32; 3] = kani::any();
    let open: [bool; 3] = kani::any();
    let mut i = 0;
    while i < ni {
        kani::assume(s[i] <= 100 && n[i] < 1_000_000_000);
        if i > 0 {
            kani::assume((s[i - 1], n[i - 1]) <= (s[i], n[i]));
        }
        set_clock(s[i], n[i]);
        unsafe { OPEN[i] = open[i]; }
        idle.push(KConn::new(i as u8, false));
        i += 1;
    }
    assert!(idle.len() == ni);
    let now_s: u64 = kani::any();
    let now_n: u32 = kani::any();
    kani::assume(now_s <= 200 && now_n < 1_000_000_000);
    if ni > 0 {
        kani::assume((s[ni - 1], n[ni - 1]) <= (now_s, now_n));
    }
    set_clock(now_s, now_n);

    let got = idle.pop(timeout);

    let zero_timeout = ts == 0 && tn == 0;
    let mut eligible: Option<usize> = None;
    let mut i = 0;
    while i < ni {
        let fresh = if !has_timeout || zero_timeout {
            true
        } else {
            let mut es = s[i] + ts;
            let mut en = n[i] as u64 + tn as u64;
            if en >= 1_000_000_000 {
                en -= 1_000_000_000;
                es += 1;
            }
            (es, en) >= (now_s, now_n as u64)
        };
        if fresh && open[i] {
            eligible = Some(i);
        }
        i += 1;
    }
    match got {
        Some(c) => {
            let id = c.id as usize;
            assert!(open[id], "closed connection handed out");
            assert!(Some(id) == eligible, "handed-out connection is expired or not the newest eligible one");
            assert!(idle.len() <= id, "entries newer than the one handed out are still listed");
            std::mem::forget(c);
        }
        None => {
            assert!(eligible.is_none(), "an open, unexpired idle connection exists but was not reused");
            assert!(idle.is_empty(), "closed/expired entries retained after an unsuccessful pop");
        }
    }
    kani::cover!(eligible.is_some(), "reuse");
    kani::cover!(eligible.is_none() && ni > 0, "nothing reusable");
    kani::cover!(ni == 0, "empty");
    std::mem::forget(idle);
}

/// Validation of the clock stub itself: differences of stubbed instants are the differences of
/// the (secs, nanos) pairs.
pub fn clock_stub_sane() {
    let s0: u64 = kani::any();
    let n0: u32 = kani::any();
    let s1: u64 = kani::any();
    let n1: u32 = kani::any();
    kani::assume(s0 <= 100 && s1 <= 100 && n0 < 1_000_000_000 && n1 < 1_000_000_000 && (s0, n0) <= (s1, n1));
    set_clock(s0, n0);
    let a = Instant::now();
    set_clock(s1, n1);
    let b = Instant::now();
    assert!(b >= a);
    assert!((a == b) == (s0 == s1 && n0 == n1));
    let d = b.duration_since(a);
    let (es, en) = if n1 >= n0 { (s1 - s0, n1 - n0) } else { (s1 - s0 - 1, n1 + 1_000_000_000 - n0) };
    assert!(d.as_secs() == es && d.subsec_nanos() == en);
    kani::cover!(true, "end reached");
}
