//! Harnesses for `client::pool` (C02, C04, C05, C06, C15): step contracts of push / pop /
//! Pooled::drop / WhenReady on the real data structures, with a mock connection.
#![allow(unsafe_code, dead_code, missing_docs, unused_imports, static_mut_refs)]
use super::*;
use crate::__verif::{noop_waker, set_clock};
use crate::client::pool::key::__verif::{tok, tok_value};
use std::future::Future as _;
use std::task::{Context, Poll};
use tokio::sync::oneshot::Receiver;

#[derive(Debug)]
pub struct KErr;
impl fmt::Display for KErr {
    fn fmt(&self, _f: &mut fmt::Formatter<'_>) -> fmt::Result {
        Ok(())
    }
}
impl std::error::Error for KErr {}

/// Per-connection mutable environment (peer closes, sender becomes ready) lives in globals so the
/// harness can change it after the connection value moved into the pool / a task.
pub static mut OPEN: [bool; 8] = [true; 8];
pub static mut READY: [u8; 8] = [1; 8]; // 0 pending, 1 ok, 2 err
pub static mut READY_POLLS: [u8; 8] = [0; 8];
pub static mut CLONES: [u8; 8] = [0; 8];

#[derive(Debug)]
pub struct KConn {
    pub id: u8,
    pub share: bool,
}
impl KConn {
    pub fn new(id: u8, share: bool) -> Self {
        KConn { id, share }
    }
}
impl Connection<()> for KConn {
    type ResBody = crate::Body;
    type Error = KErr;
    type Future = std::future::Ready<Result<http::Response<crate::Body>, KErr>>;
    fn send_request(&mut self, _r: http::Request<()>) -> Self::Future {
        std::future::ready(Err(KErr))
    }
    fn poll_ready(&mut self, _cx: &mut Context<'_>) -> Poll<Result<(), KErr>> {
        unsafe {
            READY_POLLS[self.id as usize] += 1;
            match READY[self.id as usize] {
                0 => Poll::Pending,
                1 => Poll::Ready(Ok(())),
                _ => Poll::Ready(Err(KErr)),
            }
        }
    }
    fn version(&self) -> http::Version {
        if self.share { http::Version::HTTP_2 } else { http::Version::HTTP_11 }
    }
}
impl PoolableConnection<()> for KConn {
    fn is_open(&self) -> bool {
        unsafe { OPEN[self.id as usize] }
    }
    fn can_share(&self) -> bool {
        self.share
    }
    fn reuse(&mut self) -> Option<Self> {
        if self.share {
            unsafe { CLONES[self.id as usize] += 1; }
            Some(KConn { id: self.id, share: true })
        } else {
            None
        }
    }
}

type Inner = PoolInner<KConn, ()>;
type Rx = Receiver<Pooled<KConn, ()>>;
type Tx = tokio::sync::oneshot::Sender<Pooled<KConn, ()>>;

/// The element type of `PoolInner.waiting` differs between source revisions (a bare sender, or a
/// sender tagged "follows somebody else's attempt"); the harness builds whichever the tree uses.
trait QueuedWaiter {
    fn of(tx: Tx) -> Self;
}
impl QueuedWaiter for Tx {
    fn of(tx: Tx) -> Self {
        tx
    }
}
impl QueuedWaiter for (Tx, bool) {
    fn of(tx: Tx) -> Self {
        (tx, false)
    }
}

/// A pool whose tables already have room (a state every pool is in after its first few
/// requests): keeps hashbrown's grow/rehash machinery - by far the most expensive code for CBMC,
/// and not hyperdriver's - out of the step under test.
fn warm(c: Config) -> Inner {
    let mut inner: Inner = PoolInner::new(c);
    inner.idle = HashMap::with_capacity(3);
    inner.waiting = HashMap::with_capacity(3);
    inner.connecting = HashSet::with_capacity(3);
    inner
}

fn cfg(max_idle: usize) -> Config {
    Config { idle_timeout: None, max_idle_per_host: max_idle, continue_after_preemption: false }
}

/// Add a waiter for `t`; `live` decides whether its receiver is still interested.
fn add_waiter(inner: &mut Inner, t: Token, live: bool) -> Option<Rx> {
    let (tx, mut rx) = tokio::sync::oneshot::channel();
    inner.waiting.entry(t).or_default().push_back(QueuedWaiter::of(tx));
    if live {
        Some(rx)
    } else {
        rx.close();
        std::mem::forget(rx);
        None
    }
}

fn idle_len(inner: &Inner, t: Token) -> usize {
    inner.idle.get(&t).map(|i| i.len()).unwrap_or(0)
}
fn waiting_len(inner: &Inner, t: Token) -> usize {
    inner.waiting.get(&t).map(|w| w.len()).unwrap_or(0)
}

/// What a (live) waiter got: 0 nothing, else 100*token + 10*(id+1)... returned as (got, id, token_value, is_zero)
fn recv(rx: &mut Rx) -> Option<(u8, usize)> {
    match rx.try_recv() {
        Ok(p) => {
            let id = p.connection.as_ref().unwrap().id;
            let tv = tok_value(p.token);
            std::mem::forget(p);
            Some((id, tv))
        }
        Err(_) => None,
    }
}

/// `PoolInner::push` step (C02-3, C04-b, C06-a, C15).
///
/// Pre-state (concrete shape per instance, liveness symbolic): token A has `nw` waiters (each live
/// or closed) and `ni` idle entries; if `with_b`, token B has one live waiter and one idle entry;
/// if `mark`, `connecting` holds A.  One connection (id 7, shareable or not) is pushed for A.
/// Every hash table that receives its first insert costs CBMC minutes (hashbrown's resize), so
/// instances populate only the tables their obligation is about.
#[inline(always)]
pub fn push_step(nw: usize, ni: usize, share: bool, max_idle: usize, check_bound: bool, with_b: bool, mark: bool) {
    let a = tok(1);
    let b = tok(2);
    let mut inner: Inner = PoolInner::new(cfg(max_idle));
    set_clock(5, 0);
    if ni > 0 {
        let mut list: IdleConnections<KConn, ()> = IdleConnections::default();
        list.push(KConn::new(0, share));
        if ni > 1 {
            list.push(KConn::new(1, share));
        }
        inner.idle.insert(a, list);
    }
    let live0: bool = kani::any();
    let live1: bool = kani::any();
    let mut rx0: Option<Rx> = None;
    let mut rx1: Option<Rx> = None;
    if nw > 0 {
        let mut q = VecDeque::new();
        let (tx, mut rx) = tokio::sync::oneshot::channel();
        q.push_back(QueuedWaiter::of(tx));
        if live0 { rx0 = Some(rx); } else { rx.close(); std::mem::forget(rx); }
        if nw > 1 {
            let (tx, mut rx) = tokio::sync::oneshot::channel();
            q.push_back(QueuedWaiter::of(tx));
            if live1 { rx1 = Some(rx); } else { rx.close(); std::mem::forget(rx); }
        }
        inner.waiting.insert(a, q);
    }
    let mut rxb: Option<Rx> = None;
    if with_b {
        let mut lb: IdleConnections<KConn, ()> = IdleConnections::default();
        lb.push(KConn::new(5, false));
        inner.idle.insert(b, lb);
        let mut q = VecDeque::new();
        let (tx, rx) = tokio::sync::oneshot::channel();
        q.push_back(QueuedWaiter::of(tx));
        rxb = Some(rx);
        inner.waiting.insert(b, q);
    }
    if mark {
        inner.connecting.insert(a);
    }

    inner.push(a, KConn::new(7, share), PoolRef::none());

    if mark {
        assert!(inner.connecting.is_empty(), "in-flight marker not cleared by the arriving connection");
    }
    // census of what is stored where, with as few table operations as possible
    let mut a_idle = 0;
    let mut b_idle = 0;
    let mut a_top: Option<u8> = None;
    for (k, v) in inner.idle.iter() {
        if *k == a {
            a_idle = v.len();
        } else {
            b_idle += v.len();
        }
    }
    let mut a_wait = 0;
    let mut b_wait = 0;
    for (k, v) in inner.waiting.iter() {
        if *k == a {
            a_wait = v.len();
        } else {
            b_wait += v.len();
        }
    }
    if with_b {
        // ---- origin isolation (C06) ----
        assert!(b_idle == 1, "push for one origin changed another origin's idle list");
        assert!(b_wait == 1, "push for one origin consumed another origin's waiter");
        assert!(recv(rxb.as_mut().unwrap()).is_none(), "connection delivered to a waiter of a different origin");
    } else {
        assert!(b_idle == 0 && b_wait == 0);
    }

    let first_live = if nw >= 1 && live0 { Some(0) } else if nw >= 2 && live1 { Some(1) } else { None };
    let got0 = match rx0.as_mut() { Some(rx) => recv(rx), None => None };
    let got1 = match rx1.as_mut() { Some(rx) => recv(rx), None => None };
    if !share {
        // ---- exclusive use (C02): exactly one place ----
        let mut delivered = 0;
        if let Some((id, tv)) = got0 {
            assert!(id == 7 && tv == 1, "waiter received a different connection / token");
            assert!(first_live == Some(0), "connection handed to a waiter that is not the first live one");
            delivered += 1;
        }
        if let Some((id, tv)) = got1 {
            assert!(id == 7 && tv == 1, "waiter received a different connection / token");
            assert!(first_live == Some(1), "connection handed to a waiter that is not the first live one");
            delivered += 1;
        }
        match first_live {
            Some(_) => {
                assert!(delivered == 1, "a live waiter was passed over");
                assert!(a_idle == ni, "non-shareable connection both delivered and stored idle");
            }
            None => {
                assert!(delivered == 0);
                assert!(a_idle == ni + 1 || (check_bound && a_idle <= max_idle && a_idle >= ni), "released connection neither delivered nor kept");
            }
        }
        unsafe { assert!(CLONES[7] == 0, "non-shareable connection was cloned"); }
    } else {
        // ---- multiplexed (C04-b): every live waiter gets a handle, the connection is stored ----
        if nw >= 1 && live0 {
            match got0 {
                Some((id, tv)) => assert!(id == 7 && tv == 0, "shared handle must carry the connection and the zero token"),
                None => panic!("live waiter of a multiplexed origin was not served"),
            }
        }
        if nw >= 2 && live1 {
            match got1 {
                Some((id, tv)) => assert!(id == 7 && tv == 0, "shared handle must carry the connection and the zero token"),
                None => panic!("live waiter of a multiplexed origin was not served"),
            }
        }
        assert!(a_wait == 0, "waiters left queued although a multiplexed connection arrived");
        assert!(a_idle == ni + 1 || (check_bound && a_idle <= max_idle && a_idle >= ni), "multiplexed connection not kept for later requests");
    }
    if check_bound {
        // ---- C15 ----
        assert!(a_idle <= max_idle, "more idle connections retained than max_idle_per_host");
    }
    kani::cover!(first_live.is_some(), "delivered to waiter");
    kani::cover!(first_live.is_none(), "stored idle");
    std::mem::forget(inner);
    std::mem::forget(rx0);
    std::mem::forget(rx1);
    std::mem::forget(rxb);
}

/// `PoolInner::pop` step through the token map (C04-a, C05-2, C06-a): `ni` idle entries for A
/// pushed at symbolic instants (openness symbolic); if `with_b`, one idle entry for origin B.
/// (hashbrown's SIMD probing is the dominant cost under CBMC, so the harness keeps the number of
/// hash-table operations minimal: one insert per origin, then the pop under test, then len/iter.)
#[inline(always)]
pub fn pop_step(ni: usize, has_timeout: bool, with_b: bool) {
    let a = tok(1);
    let b = tok(2);
    let ts: u64 = kani::any();
    let tn: u32 = kani::any();
    kani::assume(ts <= 50 && tn < 1_000_000_000);
    let mut c = cfg(8);
    c.idle_timeout = if has_timeout { Some(Duration::new(ts, tn)) } else { None };
    let mut inner: Inner = PoolInner::new(c);
    let s: [u64; 3] = [kani::any(), kani::any(), kani::any()];
    let n: [u32; 3] = [kani::any(), kani::any(), kani::any()];
    let open: [bool; 3] = [kani::any(), kani::any(), kani::any()];
    let mut list: IdleConnections<KConn, ()> = IdleConnections::default();
    let mut i = 0;
    while i < ni {
        kani::assume(s[i] <= 100 && n[i] < 1_000_000_000);
        if i > 0 {
            kani::assume((s[i - 1], n[i - 1]) <= (s[i], n[i]));
        }
        set_clock(s[i], n[i]);
        unsafe { OPEN[i] = open[i]; }
        list.push(KConn::new(i as u8, false));
        i += 1;
    }
    if ni > 0 {
        inner.idle.insert(a, list);
    } else {
        std::mem::forget(list);
    }
    if with_b {
        set_clock(0, 0);
        let mut lb: IdleConnections<KConn, ()> = IdleConnections::default();
        lb.push(KConn::new(5, false));
        inner.idle.insert(b, lb);
    }
    let now_s: u64 = kani::any();
    let now_n: u32 = kani::any();
    kani::assume(now_s <= 200 && now_n < 1_000_000_000);
    if ni > 0 {
        kani::assume((s[ni - 1], n[ni - 1]) <= (now_s, now_n));
    }
    set_clock(now_s, now_n);

    let got = inner.pop(a);

    let zero_timeout = ts == 0 && tn == 0;
    // fresh(i): entry i has been idle no longer than the timeout
    let mut eligible: Option<usize> = None; // newest open & fresh entry
    let mut i = 0;
    while i < ni {
        let fresh = if !has_timeout || zero_timeout {
            true
        } else {
            let mut es = s[i] + ts;
            let mut en = n[i] as u64 + tn as u64;
            if en >= 1_000_000_000 {
                en -= 1_000_000_000;
                es += 1;
            }
            (es, en) >= (now_s, now_n as u64)
        };
        if fresh && open[i] {
            eligible = Some(i);
        }
        i += 1;
    }
    // total entries still listed, and those of B
    let lists = inner.idle.len();
    let mut total = 0;
    let mut b_len = 0;
    for (k, v) in inner.idle.iter() {
        total += v.len();
        if *k == b {
            b_len = v.len();
        }
    }
    if with_b {
        assert!(b_len == 1, "pop for one origin changed another origin's idle list");
    }
    let a_len = total - b_len;
    match got {
        Some(c) => {
            let id = c.id as usize;
            assert!(id < ni, "connection of another origin handed out");
            assert!(open[id], "closed connection handed out");
            assert!(Some(id) == eligible, "handed-out connection is expired or not the newest eligible one");
            assert!(a_len <= id, "entries newer than the one handed out are still listed");
            std::mem::forget(c);
        }
        None => {
            assert!(eligible.is_none(), "an open, unexpired idle connection exists but was not reused");
            assert!(a_len == 0, "closed/expired entries retained after an unsuccessful pop");
            assert!(lists == if with_b { 1 } else { 0 }, "emptied idle list not removed");
        }
    }
    kani::cover!(eligible.is_some(), "reuse");
    kani::cover!(eligible.is_none(), "nothing reusable");
    std::mem::forget(inner);
}
