//! C18: `stream::tls::TlsBraid` dispatches every operation to the arm it holds, unchanged.
#![allow(unsafe_code, dead_code, missing_docs, unused_imports)]
use super::*;
use crate::__verif::{adapter_op, MockIo};

#[inline(always)]
pub fn braid_notls_op(op: u8, c: usize, pre: usize, k: usize) {
    adapter_op(|io| TlsBraid::<MockIo, MockIo>::NoTls(io), op, c, pre, k);
}
#[inline(always)]
pub fn braid_tls_op(op: u8, c: usize, pre: usize, k: usize) {
    adapter_op(|io| TlsBraid::<MockIo, MockIo>::Tls(io), op, c, pre, k);
}
