//! Harnesses for `client::pool::key` (C06-b TokenMap) and a Token constructor for sibling harnesses.
#![allow(unsafe_code, dead_code, missing_docs, unused_imports)]
use super::*;

/// Token with the given non-zero value (what `TokenMap::insert` hands out for the n-th new key).
pub(crate) fn tok(n: usize) -> Token {
    Token(NonZeroUsize::new(n))
}
pub(crate) fn tok_value(t: Token) -> usize {
    match t.0 {
        Some(v) => v.get(),
        None => 0,
    }
}

/// C06-b: for up to three inserts with symbolic keys: equal keys get equal tokens, distinct keys
/// get distinct tokens, and no token is the zero token (which means "not pool managed").
pub fn token_map_injective() {
    let mut m: TokenMap<u8> = TokenMap::default();
    let k0: u8 = kani::any();
    let k1: u8 = kani::any();
    let k2: u8 = kani::any();
    // keep hashbrown's table shape concrete-friendly: small key domain
    kani::assume(k0 < 4 && k1 < 4 && k2 < 4);
    let t0 = m.insert(k0);
    let t1 = m.insert(k1);
    let t2 = m.insert(k2);
    let t0b = m.insert(k0);
    assert!(!t0.is_zero() && !t1.is_zero() && !t2.is_zero());
    assert!((k0 == k1) == (t0 == t1), "token equality differs from key equality");
    assert!((k0 == k2) == (t0 == t2), "token equality differs from key equality");
    assert!((k1 == k2) == (t1 == t2), "token equality differs from key equality");
    assert!(t0 == t0b, "a key's token changed between lookups");
    kani::cover!(k0 != k1 && k1 != k2 && k0 != k2, "three distinct keys");
    kani::cover!(k0 == k2 && k0 != k1, "repeat key");
    std::mem::forget(m);
}

/// Counter wrap-around: at usize::MAX the counter restarts at 1, never at zero.
pub fn token_map_wrap() {
    let mut m: TokenMap<u8> = TokenMap { counter: NonZeroUsize::new(usize::MAX).unwrap(), map: HashMap::new() };
    let a = m.insert(1);
    let b = m.insert(2);
    assert!(!a.is_zero() && !b.is_zero());
    assert!(a != b);
    kani::cover!(true, "end reached");
    std::mem::forget(m);
}
