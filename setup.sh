#!/bin/sh
# Offline setup: nothing is fetched; checks build what they need from /repo at run time.
set -e
cd "$(dirname "$0")"
chmod +x check lib/mkmanifest.py 2>/dev/null || true
command -v cargo-kani >/dev/null || { echo "cargo-kani missing"; exit 1; }
command -v python3-vt >/dev/null || { echo "python3-vt missing"; exit 1; }
python3-vt -c "import z3" || { echo "z3 python bindings missing"; exit 1; }
mkdir -p evidence logs replay

# the native replay driver (path dependency on /repo) must build: without it no counterexample can be confirmed
test -f native/src/bin/replay/main.rs || { echo "native replay sources missing"; exit 1; }
python3 - <<'PY' || { echo "native replay driver does not build"; exit 1; }
import sys
sys.path.insert(0, "lib")
import nativebuild
sys.exit(0 if nativebuild.ensure_replay(features="sni") else 1)
PY
echo "native replay driver ok"
echo "setup ok"
