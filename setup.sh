#!/bin/sh
# Offline setup: nothing is fetched; checks build what they need from /repo at run time.
set -e
cd "$(dirname "$0")"
chmod +x check lib/mkmanifest.py 2>/dev/null || true
command -v cargo-kani >/dev/null || { echo "cargo-kani missing"; exit 1; }
command -v python3-vt >/dev/null || { echo "python3-vt missing"; exit 1; }
python3-vt -c "import z3" || { echo "z3 python bindings missing"; exit 1; }
mkdir -p evidence logs replay
echo "setup ok"
