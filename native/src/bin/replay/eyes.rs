//! Native replay families added for C10/C11 (happy eyeballs, through the `verif-hooks` re-export)
//! and for the TCP stage of C09.
use std::collections::BTreeMap;

/// C10 / C11: the scripted race in tokio's paused (virtual) time.  One model time unit = 1 ms.
/// Prints the raw observations; the Python judge recomputes the property on them.
pub fn eyeballs(kv: &BTreeMap<String, String>) -> Vec<String> {
    use hyperdriver::verif_hooks::{EyeballSet, HappyEyeballsError};
    use std::sync::{Arc, Mutex};
    use std::time::Duration;
    let outcomes: Vec<String> = kv.get("outcomes").map(|s| s.split(',').filter(|x| !x.is_empty()).map(|x| x.to_string()).collect()).unwrap_or_default();
    let lat: Vec<u64> = kv.get("latencies").map(|s| s.split(',').filter(|x| !x.is_empty()).map(|x| x.parse().unwrap_or(0)).collect()).unwrap_or_default();
    let opt = |k: &str| kv.get(k).and_then(|s| s.parse::<u64>().ok());
    let delay = opt("delay").map(Duration::from_millis);
    let timeout = opt("timeout").map(Duration::from_millis);
    let conc = opt("concurrency").map(|c| c as usize);
    let rt = tokio::runtime::Builder::new_current_thread().enable_all().start_paused(true).build().unwrap();
    rt.block_on(async move {
        let t0 = tokio::time::Instant::now();
        let started: Arc<Mutex<Vec<Option<u128>>>> = Arc::new(Mutex::new(vec![None; outcomes.len()]));
        let mut set: EyeballSet<std::pin::Pin<Box<dyn std::future::Future<Output = Result<usize, usize>> + Send>>, usize, usize> = EyeballSet::new(delay, timeout, conc);
        for (k, o) in outcomes.iter().enumerate() {
            let o = o.clone();
            let l = lat.get(k).copied().unwrap_or(0);
            let started = started.clone();
            set.push(Box::pin(async move {
                started.lock().unwrap()[k] = Some(t0.elapsed().as_millis());
                if o == "never" {
                    std::future::pending::<()>().await;
                }
                if l > 0 {
                    tokio::time::sleep(Duration::from_millis(l)).await;
                }
                if o == "ok" {
                    Ok(k)
                } else {
                    Err(k)
                }
            }));
        }
        let r = tokio::time::timeout(Duration::from_secs(100_000), set.finish()).await;
        let end = t0.elapsed().as_millis();
        let res = match r {
            Err(_) => "hang".to_string(),
            Ok(Ok(k)) => format!("ok:{k}"),
            Ok(Err(HappyEyeballsError::Error(k))) => format!("error:{k}"),
            Ok(Err(HappyEyeballsError::Timeout(d))) => format!("timeout:{}", d.as_millis()),
            Ok(Err(HappyEyeballsError::NoProgress)) => "noprogress".to_string(),
            Ok(Err(_)) => "other".to_string(),
        };
        let st: Vec<String> = started.lock().unwrap().iter().map(|s| s.map(|v| v.to_string()).unwrap_or("-".into())).collect();
        vec![format!("race={res}"), format!("end={end}"), format!("started={}", st.join(",")), "result=ok".into()]
    })
}

/// C09 (TCP stage "before accept"): a client completes the TCP handshake into the listen backlog
/// and resets the connection before the server accepts it; then well-behaved clients must be served.
pub fn tcp_reset_before_accept(_kv: &BTreeMap<String, String>) -> Vec<String> {
    use std::convert::Infallible;
    use std::future::IntoFuture;
    use tokio::io::{AsyncReadExt, AsyncWriteExt};
    let rt = tokio::runtime::Builder::new_current_thread().enable_all().build().unwrap();
    rt.block_on(async move {
        let listener = match tokio::net::TcpListener::bind("127.0.0.1:0").await {
            Ok(l) => l,
            Err(e) => return vec![format!("input_error=bind: {e}")],
        };
        let addr = listener.local_addr().unwrap();
        {
            // connect, then abort with RST (SO_LINGER 0) while still un-accepted
            let c = match std::net::TcpStream::connect(addr) {
                Ok(c) => c,
                Err(e) => return vec![format!("input_error=connect: {e}")],
            };
            if let Err(e) = set_linger_zero(&c) {
                return vec![format!("input_error=linger: {e}")];
            }
            drop(c);
        }
        tokio::time::sleep(std::time::Duration::from_millis(100)).await;
        let svc = hyperdriver::service::make_service_fn(|_| async {
            Ok::<_, Infallible>(tower::service_fn(|_req: http::Request<hyperdriver::Body>| async { Ok::<_, Infallible>(http::Response::new(hyperdriver::Body::from("ok"))) }))
        });
        let server = hyperdriver::server::Server::builder().with_listener(listener).await.with_make_service(svc).with_auto_http().with_tokio();
        let serving = tokio::spawn(async move { server.into_future().await.map_err(|e| e.to_string()) });
        let mut served = 0;
        for _ in 0..2 {
            let ok = tokio::time::timeout(std::time::Duration::from_millis(1000), async {
                let mut s = tokio::net::TcpStream::connect(addr).await.ok()?;
                s.write_all(b"GET / HTTP/1.1\r\nhost: x\r\nconnection: close\r\n\r\n").await.ok()?;
                let mut buf = Vec::new();
                s.read_to_end(&mut buf).await.ok()?;
                Some(buf.starts_with(b"HTTP/1.1 200"))
            })
            .await;
            if let Ok(Some(true)) = ok {
                served += 1;
            }
        }
        let alive = !serving.is_finished();
        let mut out = vec![format!("served={served}"), format!("server_alive={}", alive as u8)];
        if !alive {
            match serving.await {
                Ok(r) => out.push(format!("server_result={r:?}")),
                Err(e) => out.push(format!("server_result=task {}", if e.is_panic() { "panicked" } else { "cancelled" })),
            }
        } else {
            serving.abort();
        }
        out.push("result=ok".into());
        out
    })
}

fn set_linger_zero(s: &std::net::TcpStream) -> std::io::Result<()> {
    use std::os::fd::AsRawFd;
    #[repr(C)]
    struct Linger {
        l_onoff: i32,
        l_linger: i32,
    }
    extern "C" {
        fn setsockopt(fd: i32, level: i32, name: i32, val: *const core::ffi::c_void, len: u32) -> i32;
    }
    const SOL_SOCKET: i32 = 1;
    const SO_LINGER: i32 = 13;
    let l = Linger { l_onoff: 1, l_linger: 0 };
    let r = unsafe { setsockopt(s.as_raw_fd(), SOL_SOCKET, SO_LINGER, &l as *const _ as *const core::ffi::c_void, std::mem::size_of::<Linger>() as u32) };
    if r == 0 {
        Ok(())
    } else {
        Err(std::io::Error::last_os_error())
    }
}

/// C07: a real `Server` (auto HTTP, tokio executor) over an in-process duplex listener with graceful
/// shutdown.  `stage` says where the only client connection is when the signal fires:
///   `idle`       an exchange has completed, the keep-alive connection is idle;
///   `in_flight`  the handler is running (held by a gate that is opened after the signal);
///   `sniffing`   connected, nothing sent yet (protocol detection pending);
///   `none`       no connection.
/// After the signal a *late* client tries to connect.  Prints what the clients and the server
/// future observe.
pub fn graceful(kv: &BTreeMap<String, String>) -> Vec<String> {
    let kv = kv.clone();
    use hyperdriver::server::conn::Acceptor;
    use std::sync::Arc;
    use std::time::Duration;
    use tokio::io::{AsyncReadExt, AsyncWriteExt};
    let stage = kv.get("stage").cloned().unwrap_or("idle".into());
    if kv.get("late").map(|s| s == "midpoll").unwrap_or(false) {
        return graceful_midpoll();
    }
    let rt = tokio::runtime::Builder::new_current_thread().enable_all().build().unwrap();
    rt.block_on(async move {
        let (client, incoming) = hyperdriver::stream::duplex::pair();
        let acceptor = Acceptor::from(incoming);
        let gate = Arc::new(tokio::sync::Notify::new());
        let entered = Arc::new(tokio::sync::Notify::new());
        let (g2, e2) = (gate.clone(), entered.clone());
        let svc = tower::service_fn(move |req: http::Request<hyperdriver::Body>| {
            let (gate, entered) = (g2.clone(), e2.clone());
            async move {
                if req.uri().path() == "/hold" {
                    entered.notify_one();
                    gate.notified().await;
                }
                Ok::<_, std::convert::Infallible>(http::Response::new(hyperdriver::Body::from("hello-body")))
            }
        });
        let (sig_tx, sig_rx) = tokio::sync::oneshot::channel::<()>();
        let server = hyperdriver::Server::builder().with_acceptor(acceptor).with_shared_service(svc).with_auto_http().with_tokio();
        let serving = tokio::spawn(async move {
            server
                .with_graceful_shutdown(async move {
                    let _ = sig_rx.await;
                })
                .await
                .map_err(|e| e.to_string())
        });
        let settle = || async {
            for _ in 0..30 {
                tokio::task::yield_now().await;
            }
            tokio::time::sleep(Duration::from_millis(30)).await;
        };
        let mut out = vec![];
        let mut conn = None;
        if stage != "none" {
            match tokio::time::timeout(Duration::from_millis(500), client.connect(4096)).await {
                Ok(Ok(s)) => conn = Some(s),
                _ => return vec!["input_error=connect failed".into()],
            }
        }
        settle().await;
        if stage == "idle" {
            let s = conn.as_mut().unwrap();
            s.write_all(b"GET / HTTP/1.1\r\nhost: x\r\n\r\n").await.unwrap();
            let mut buf = vec![0u8; 4096];
            let mut got = Vec::new();
            while !String::from_utf8_lossy(&got).contains("hello-body") {
                match tokio::time::timeout(Duration::from_millis(500), s.read(&mut buf)).await {
                    Ok(Ok(n)) if n > 0 => got.extend_from_slice(&buf[..n]),
                    _ => break,
                }
            }
            out.push(format!("first_response={}", String::from_utf8_lossy(&got).contains("hello-body") as u8));
        } else if stage == "in_flight" {
            let s = conn.as_mut().unwrap();
            s.write_all(b"GET /hold HTTP/1.1\r\nhost: x\r\n\r\n").await.unwrap();
            let _ = tokio::time::timeout(Duration::from_millis(500), entered.notified()).await;
        }
        settle().await;
        // ---- the signal ----
        // `late=queued`: the late client's connection request is already queued at the listener at
        // the instant the signal resolves (its connect future is polled once, then the signal fires)
        let mut queued = None;
        if kv.get("late").map(|s| s == "queued").unwrap_or(false) {
            let mut cf = Box::pin(client.connect(4096));
            let _ = futures_util::poll!(&mut cf);
            queued = Some(cf);
        }
        let _ = sig_tx.send(());
        settle().await;
        // a late client
        let late_accepted = Arc::new(std::sync::atomic::AtomicBool::new(false));
        let la = late_accepted.clone();
        let late = tokio::time::timeout(Duration::from_millis(300), async {
            let mut s = match queued {
                Some(cf) => cf.await.ok()?,
                None => client.connect(4096).await.ok()?,
            };
            la.store(true, std::sync::atomic::Ordering::SeqCst);
            s.write_all(b"GET / HTTP/1.1\r\nhost: x\r\nconnection: close\r\n\r\n").await.ok()?;
            let mut got = Vec::new();
            s.read_to_end(&mut got).await.ok()?;
            Some(String::from_utf8_lossy(&got).contains("hello-body"))
        })
        .await;
        out.push(format!("late_served={}", matches!(late, Ok(Some(true))) as u8));
        out.push(format!("late_accepted={}", late_accepted.load(std::sync::atomic::Ordering::SeqCst) as u8));
        if stage == "in_flight" {
            gate.notify_waiters();
            gate.notify_one();
        }
        if let Some(mut s) = conn {
            let mut got = Vec::new();
            let r = tokio::time::timeout(Duration::from_millis(800), s.read_to_end(&mut got)).await;
            let text = String::from_utf8_lossy(&got).to_string();
            out.push(format!("closed={}", matches!(r, Ok(Ok(_))) as u8));
            if stage == "in_flight" {
                out.push(format!("response_complete={}", (text.starts_with("HTTP/1.1 200") && text.contains("hello-body")) as u8));
            }
        }
        let done = tokio::time::timeout(Duration::from_millis(500), serving).await;
        out.push(match done {
            Ok(Ok(Ok(()))) => "server_done=ok".to_string(),
            Ok(Ok(Err(e))) => format!("server_done=err:{e}"),
            Ok(Err(_)) => "server_done=panicked".to_string(),
            Err(_) => "server_done=pending".to_string(),
        });
        out.push("result=ok".into());
        out
    })
}

/// `late=midpoll`: two clients are queued at the listener before the server is polled for the first time;
/// making the service for the FIRST connection resolves the shutdown signal (so it resolves while the
/// server future is being polled).  The second, still queued, connection must not be accepted.
fn graceful_midpoll() -> Vec<String> {
    use hyperdriver::server::conn::Acceptor;
    use std::sync::atomic::{AtomicUsize, Ordering};
    use std::sync::{Arc, Mutex};
    use std::time::Duration;
    let rt = tokio::runtime::Builder::new_current_thread().enable_all().build().unwrap();
    rt.block_on(async move {
        let (client, incoming) = hyperdriver::stream::duplex::pair();
        let acceptor = Acceptor::from(incoming);
        let (sig_tx, sig_rx) = tokio::sync::oneshot::channel::<()>();
        let sig_tx = Arc::new(Mutex::new(Some(sig_tx)));
        let made = Arc::new(AtomicUsize::new(0));
        let made2 = made.clone();
        let svc = hyperdriver::service::make_service_fn(move |_| {
            made2.fetch_add(1, Ordering::SeqCst);
            if let Some(tx) = sig_tx.lock().unwrap().take() {
                let _ = tx.send(());
            }
            async {
                Ok::<_, std::convert::Infallible>(tower::service_fn(|_req: http::Request<hyperdriver::Body>| async {
                    Ok::<_, std::convert::Infallible>(http::Response::new(hyperdriver::Body::from("hello-body")))
                }))
            }
        });
        // both connects are queued before the server future exists
        let mut c1 = Box::pin(client.connect(4096));
        let mut c2 = Box::pin(client.connect(4096));
        let _ = futures_util::poll!(&mut c1);
        let _ = futures_util::poll!(&mut c2);
        let server = hyperdriver::Server::builder().with_acceptor(acceptor).with_make_service(svc).with_auto_http().with_tokio();
        let serving = tokio::spawn(async move {
            server
                .with_graceful_shutdown(async move {
                    let _ = sig_rx.await;
                })
                .await
                .map_err(|e| e.to_string())
        });
        let r1 = tokio::time::timeout(Duration::from_millis(300), &mut c1).await;
        let r2 = tokio::time::timeout(Duration::from_millis(300), &mut c2).await;
        let done = tokio::time::timeout(Duration::from_millis(500), serving).await;
        let mut out = vec![
            format!("first_accepted={}", matches!(r1, Ok(Ok(_))) as u8),
            format!("late_accepted={}", matches!(r2, Ok(Ok(_))) as u8),
            format!("late_served=0"),
            format!("services_made={}", made.load(Ordering::SeqCst)),
        ];
        out.push(match done {
            Ok(Ok(Ok(()))) => "server_done=ok".to_string(),
            Ok(Ok(Err(e))) => format!("server_done=err:{e}"),
            Ok(Err(_)) => "server_done=panicked".to_string(),
            Err(_) => "server_done=pending".to_string(),
        });
        out.push("result=ok".into());
        out
    })
}

/// C09 (serving loop): a real `Server` over the in-process duplex listener.  One client connection
/// misbehaves (`fault` = none | early_close | garbage | idle), then two well-behaved probe clients
/// must each be served and the serving future must still be running.
pub fn serving_probe(kv: &BTreeMap<String, String>) -> Vec<String> {
    use hyperdriver::server::conn::Acceptor;
    use std::future::IntoFuture;
    use std::time::Duration;
    use tokio::io::{AsyncReadExt, AsyncWriteExt};
    let fault = kv.get("fault").cloned().unwrap_or("none".into());
    let rt = tokio::runtime::Builder::new_current_thread().enable_all().build().unwrap();
    rt.block_on(async move {
        let (client, incoming) = hyperdriver::stream::duplex::pair();
        let acceptor = Acceptor::from(incoming);
        let svc = tower::service_fn(|_req: http::Request<hyperdriver::Body>| async { Ok::<_, std::convert::Infallible>(http::Response::new(hyperdriver::Body::from("hello-body"))) });
        let server = hyperdriver::Server::builder().with_acceptor(acceptor).with_shared_service(svc).with_auto_http().with_tokio();
        let serving = tokio::spawn(async move { server.into_future().await.map_err(|e| e.to_string()) });
        let settle = || async {
            for _ in 0..30 {
                tokio::task::yield_now().await;
            }
            tokio::time::sleep(Duration::from_millis(30)).await;
        };
        settle().await;
        let mut held = None;
        if fault != "none" {
            if let Ok(Ok(mut s)) = tokio::time::timeout(Duration::from_millis(500), client.connect(4096)).await {
                match fault.as_str() {
                    "early_close" => drop(s),
                    "garbage" => {
                        let _ = s.write_all(b"\x00\x01garbage not http\r\n\r\n").await;
                        held = Some(s);
                    }
                    _ => held = Some(s),
                }
            }
            settle().await;
        }
        let mut served = 0;
        for _ in 0..2 {
            let ok = tokio::time::timeout(Duration::from_millis(800), async {
                let mut s = client.connect(4096).await.ok()?;
                s.write_all(b"GET / HTTP/1.1\r\nhost: x\r\nconnection: close\r\n\r\n").await.ok()?;
                let mut got = Vec::new();
                s.read_to_end(&mut got).await.ok()?;
                Some(String::from_utf8_lossy(&got).contains("hello-body"))
            })
            .await;
            if let Ok(Some(true)) = ok {
                served += 1;
            }
            settle().await;
        }
        drop(held);
        let alive = !serving.is_finished();
        let mut out = vec![format!("served={served}"), format!("server_alive={}", alive as u8)];
        if alive {
            serving.abort();
        }
        out.push("result=ok".into());
        out
    })
}

/// C09 (Unix stage): a client whose own socket is bound to a path that is not valid UTF-8 connects
/// to a Unix listener; then two well-behaved probe clients must be served and the server must
/// still be running.  `utf8=1` binds the first client to an ordinary path instead.
pub fn unix_client_path(kv: &BTreeMap<String, String>) -> Vec<String> {
    use std::convert::Infallible;
    use std::future::IntoFuture;
    use std::os::unix::ffi::OsStrExt;
    use tokio::io::{AsyncReadExt, AsyncWriteExt};
    let utf8 = kv.get("utf8").map(|s| s == "1").unwrap_or(false);
    let rt = tokio::runtime::Builder::new_current_thread().enable_all().build().unwrap();
    rt.block_on(async move {
        let dir = std::env::temp_dir().join(format!("hdverif-unix-{}", std::process::id()));
        let _ = std::fs::remove_dir_all(&dir);
        if let Err(e) = std::fs::create_dir_all(&dir) {
            return vec![format!("input_error=mkdir: {e}")];
        }
        let srv_path = dir.join("server.sock");
        let listener = match tokio::net::UnixListener::bind(&srv_path) {
            Ok(l) => l,
            Err(e) => return vec![format!("input_error=bind: {e}")],
        };
        let svc = hyperdriver::service::make_service_fn(|_| async {
            Ok::<_, Infallible>(tower::service_fn(|_req: http::Request<hyperdriver::Body>| async { Ok::<_, Infallible>(http::Response::new(hyperdriver::Body::from("hello-body"))) }))
        });
        let server = hyperdriver::server::Server::builder().with_incoming(listener).with_make_service(svc).with_auto_http().with_tokio();
        let serving = tokio::spawn(async move { server.into_future().await.map_err(|e| e.to_string()) });
        tokio::time::sleep(std::time::Duration::from_millis(50)).await;
        // the odd client: bound to its own path before connecting
        let mut cli: Vec<u8> = dir.as_os_str().as_bytes().to_vec();
        cli.extend_from_slice(if utf8 { b"/client.sock" } else { b"/client-\xff\xfe.sock" });
        let fd = match raw_unix_connect(&cli, srv_path.as_os_str().as_bytes()) {
            Ok(fd) => fd,
            Err(e) => {
                let _ = std::fs::remove_dir_all(&dir);
                return vec![format!("input_error=raw client: {e}")];
            }
        };
        tokio::time::sleep(std::time::Duration::from_millis(100)).await;
        let mut served = 0;
        for _ in 0..2 {
            let ok = tokio::time::timeout(std::time::Duration::from_millis(1000), async {
                let mut s = tokio::net::UnixStream::connect(&srv_path).await.ok()?;
                s.write_all(b"GET / HTTP/1.1\r\nhost: x\r\nconnection: close\r\n\r\n").await.ok()?;
                let mut buf = Vec::new();
                s.read_to_end(&mut buf).await.ok()?;
                Some(String::from_utf8_lossy(&buf).contains("hello-body"))
            })
            .await;
            if let Ok(Some(true)) = ok {
                served += 1;
            }
        }
        let alive = !serving.is_finished();
        let mut out = vec![format!("served={served}"), format!("server_alive={}", alive as u8)];
        if !alive {
            match serving.await {
                Ok(r) => out.push(format!("server_result={r:?}")),
                Err(e) => out.push(format!("server_result=task {}", if e.is_panic() { "panicked" } else { "cancelled" })),
            }
        } else {
            serving.abort();
        }
        unsafe {
            close(fd);
        }
        let _ = std::fs::remove_dir_all(&dir);
        out.push("result=ok".into());
        out
    })
}

extern "C" {
    fn socket(domain: i32, ty: i32, protocol: i32) -> i32;
    fn bind(fd: i32, addr: *const core::ffi::c_void, len: u32) -> i32;
    fn connect(fd: i32, addr: *const core::ffi::c_void, len: u32) -> i32;
    fn close(fd: i32) -> i32;
}

#[repr(C)]
struct SockAddrUn {
    family: u16,
    path: [u8; 108],
}

fn sockaddr_un(path: &[u8]) -> std::io::Result<(SockAddrUn, u32)> {
    if path.len() >= 108 {
        return Err(std::io::Error::new(std::io::ErrorKind::InvalidInput, "path too long"));
    }
    let mut a = SockAddrUn { family: 1, path: [0; 108] };
    a.path[..path.len()].copy_from_slice(path);
    Ok((a, (2 + path.len() + 1) as u32))
}

/// socket(AF_UNIX, SOCK_STREAM) + bind(own path) + connect(server path); returns the descriptor
fn raw_unix_connect(own: &[u8], server: &[u8]) -> std::io::Result<i32> {
    unsafe {
        let fd = socket(1, 1, 0);
        if fd < 0 {
            return Err(std::io::Error::last_os_error());
        }
        let (a, la) = sockaddr_un(own)?;
        if bind(fd, &a as *const _ as *const core::ffi::c_void, la) != 0 {
            let e = std::io::Error::last_os_error();
            close(fd);
            return Err(e);
        }
        let (s, ls) = sockaddr_un(server)?;
        if connect(fd, &s as *const _ as *const core::ffi::c_void, ls) != 0 {
            let e = std::io::Error::last_os_error();
            close(fd);
            return Err(e);
        }
        Ok(fd)
    }
}

/// C13 / C17: a request whose own version is `version` is sent through the pooled `Client` over the
/// duplex transport to a hyper HTTP/1 (or, with `conn=h2`, HTTP/2) server.  Reports the version the
/// server saw and the number of panics in any task.
pub fn client_send_version(kv: &BTreeMap<String, String>) -> Vec<String> {
    use hyperdriver::bridge::io::TokioIo;
    use hyperdriver::client::conn::protocol::auto::HttpConnectionBuilder;
    use hyperdriver::client::conn::transport::duplex::DuplexTransport;
    use hyperdriver::server::conn::Accept;
    use std::sync::atomic::{AtomicUsize, Ordering};
    use std::sync::{Arc, Mutex};
    let v = match kv.get("version").map(|s| s.as_str()).unwrap_or("1.1") {
        "0.9" => http::Version::HTTP_09,
        "1.0" => http::Version::HTTP_10,
        "2" => http::Version::HTTP_2,
        "3" => http::Version::HTTP_3,
        _ => http::Version::HTTP_11,
    };
    let h2 = kv.get("conn").map(|s| s == "h2").unwrap_or(false);
    static PANICS: AtomicUsize = AtomicUsize::new(0);
    std::panic::set_hook(Box::new(|_| {
        PANICS.fetch_add(1, Ordering::SeqCst);
    }));
    let rt = tokio::runtime::Builder::new_current_thread().enable_all().build().unwrap();
    rt.block_on(async move {
        let (tx, mut incoming) = hyperdriver::stream::duplex::pair();
        let saw = Arc::new(Mutex::new(None::<String>));
        let saw2 = saw.clone();
        tokio::spawn(async move {
            while let Ok(s) = std::future::poll_fn(|cx| std::pin::Pin::new(&mut incoming).poll_accept(cx)).await {
                let saw = saw2.clone();
                tokio::spawn(async move {
                    let svc = hyper::service::service_fn(move |req: http::Request<hyper::body::Incoming>| {
                        *saw.lock().unwrap() = Some(format!("{:?}", req.version()));
                        async move { Ok::<_, std::convert::Infallible>(http::Response::new(hyperdriver::Body::empty())) }
                    });
                    let b = hyperdriver::server::conn::auto::Builder::new(hyperdriver::bridge::rt::TokioExecutor::new());
                    let _ = b.serve_connection_with_upgrades(TokioIo::new(s), svc).await;
                });
            }
        });
        // the connection's protocol follows from the request's version (HTTP/2 => prior-knowledge h2)
        let _ = h2;
        let proto = HttpConnectionBuilder::default();
        let mut client = hyperdriver::client::Client::builder().with_protocol(proto).with_transport(DuplexTransport::new(4096, tx.clone())).with_default_pool().without_timeout().build();
        // the request's own version is what is under test; for an HTTP/2 connection the caller asks for HTTP/2
        let req = http::Request::get("http://origin.test/").version(v).body(hyperdriver::Body::empty()).unwrap();
        let r = tokio::time::timeout(std::time::Duration::from_millis(800), client.request(req)).await;
        tokio::time::sleep(std::time::Duration::from_millis(50)).await;
        let status = match r {
            Ok(Ok(resp)) => format!("{}", resp.status().as_u16()),
            Ok(Err(e)) => format!("err:{e}"),
            Err(_) => "timeout".to_string(),
        };
        let mut out = vec![format!("status={status}"), format!("panics={}", PANICS.load(Ordering::SeqCst))];
        if let Some(s) = saw.lock().unwrap().clone() {
            out.push(format!("server_saw={s}"));
        }
        out.push("result=ok".into());
        out
    })
}

/// C12 (builder stage): a TLS configuration is set on `Client::builder()` and then one more builder
/// method is applied (`method`); an `https` request is sent over the duplex transport and the peer
/// reports whether the first bytes are a TLS ClientHello or plaintext.
#[cfg(feature = "tls")]
pub fn builder_tls_order(kv: &BTreeMap<String, String>) -> Vec<String> {
    use hyperdriver::client::conn::protocol::auto::HttpConnectionBuilder;
    use hyperdriver::client::conn::transport::duplex::DuplexTransport;
    use hyperdriver::server::conn::AcceptExt as _;
    use std::sync::Arc;
    use tokio::io::AsyncReadExt as _;
    let method = kv.get("method").cloned().unwrap_or("with_body".into());
    let rt = tokio::runtime::Builder::new_current_thread().enable_all().build().unwrap();
    rt.block_on(async move {
        let roots = rustls::RootCertStore::empty();
        let config = rustls::ClientConfig::builder_with_provider(Arc::new(rustls::crypto::ring::default_provider()))
            .with_safe_default_protocol_versions()
            .unwrap()
            .with_root_certificates(roots)
            .with_no_client_auth();
        let (tx, incoming) = hyperdriver::stream::duplex::pair();
        let base = hyperdriver::client::Client::builder().with_protocol(HttpConnectionBuilder::default()).with_transport(DuplexTransport::new(4096, tx.clone())).with_default_pool().with_tls(config);
        let mut client = match method.as_str() {
            "with_body" => base.with_body::<hyperdriver::Body, hyperdriver::Body>().build(),
            "with_timeout" => base.with_timeout(std::time::Duration::from_secs(5)).build(),
            "without_timeout" => base.without_timeout().build(),
            "with_optional_timeout" => base.with_optional_timeout(None).build(),
            "with_user_agent" => base.with_user_agent("x".to_string()).build(),
            "with_default_pool" => base.with_default_pool().build(),
            "without_pool" => base.without_pool().build(),
            "with_pool" => base.with_pool(hyperdriver::client::PoolConfig::default()).build(),
            "with_protocol" => base.with_protocol(HttpConnectionBuilder::default()).build(),
            "with_transport" => base.with_transport(DuplexTransport::new(4096, tx.clone())).build(),
            "without_redirects" => base.without_redirects().build(),
            "with_standard_redirect_policy" => base.with_standard_redirect_policy().build(),
            _ => return vec![format!("input_error=method {method} has no replay arm")],
        };
        let peer = tokio::spawn(async move {
            let Ok(mut conn) = incoming.accept().await else { return None };
            let mut buf = [0u8; 16];
            match tokio::time::timeout(std::time::Duration::from_millis(500), conn.read(&mut buf)).await {
                Ok(Ok(n)) if n > 0 => Some(buf[..n].to_vec()),
                _ => None,
            }
        });
        let req = http::Request::get("https://example.com/secret").body(hyperdriver::Body::empty()).unwrap();
        let _ = tokio::time::timeout(std::time::Duration::from_millis(400), client.request(req)).await;
        let first = peer.await.ok().flatten();
        let kind = match first {
            Some(b) if b.first() == Some(&0x16) => "tls",
            Some(_) => "plaintext",
            None => "nothing",
        };
        vec![format!("first_bytes={kind}"), "result=ok".into()]
    })
}
#[cfg(not(feature = "tls"))]
pub fn builder_tls_order(_kv: &BTreeMap<String, String>) -> Vec<String> {
    vec!["input_error=built without the tls feature".into()]
}

/// C03: request A (HTTP/1.1) holds the only connection the listener ever accepts; request B (HTTP/2)
/// owns an in-flight connection attempt (never accepted); request C follows that attempt.  A finishes,
/// its connection pre-empts B; with `cont=0` B's own attempt is thereby abandoned.  C must resolve
/// (with a connection or an error) - a timeout means it is stranded.
pub fn pool_preempted_owner(kv: &BTreeMap<String, String>) -> Vec<String> {
    use hyperdriver::bridge::io::TokioIo;
    use hyperdriver::client::conn::protocol::auto::HttpConnectionBuilder;
    use hyperdriver::client::conn::transport::duplex::DuplexTransport;
    use hyperdriver::server::conn::Accept;
    use std::sync::Arc;
    use std::sync::atomic::{AtomicUsize, Ordering};
    use std::task::{Context, Poll};
    /// the second connect (B's own attempt) stays pending until `fail` fires and then errors
    #[derive(Clone)]
    struct SecondFails {
        inner: DuplexTransport,
        calls: Arc<AtomicUsize>,
        fail: Arc<tokio::sync::Notify>,
    }
    impl tower::Service<http::request::Parts> for SecondFails {
        type Response = <DuplexTransport as tower::Service<http::request::Parts>>::Response;
        type Error = std::io::Error;
        type Future = std::pin::Pin<Box<dyn std::future::Future<Output = Result<Self::Response, Self::Error>> + Send>>;
        fn poll_ready(&mut self, cx: &mut Context<'_>) -> Poll<Result<(), Self::Error>> {
            self.inner.poll_ready(cx)
        }
        fn call(&mut self, req: http::request::Parts) -> Self::Future {
            let n = self.calls.fetch_add(1, Ordering::SeqCst);
            if n == 1 {
                let fail = self.fail.clone();
                return Box::pin(async move {
                    fail.notified().await;
                    Err(std::io::Error::new(std::io::ErrorKind::ConnectionRefused, "injected dial failure"))
                });
            }
            Box::pin(self.inner.call(req))
        }
    }
    let cont = kv.get("cont").map(|s| s == "1").unwrap_or(false);
    let c_version = if kv.get("c").map(|s| s == "h1").unwrap_or(false) { http::Version::HTTP_11 } else { http::Version::HTTP_2 };
    let rt = tokio::runtime::Builder::new_current_thread().enable_all().build().unwrap();
    rt.block_on(async move {
        let (tx, mut incoming) = hyperdriver::stream::duplex::pair();
        let release = Arc::new(tokio::sync::Notify::new());
        let release_b = Arc::new(tokio::sync::Notify::new());
        {
            let release = release.clone();
            let release_b = release_b.clone();
            tokio::spawn(async move {
                // only ONE connection is ever accepted; it is served as HTTP/1.1 with keep-alive
                let s1 = std::future::poll_fn(|cx| std::pin::Pin::new(&mut incoming).poll_accept(cx)).await.unwrap();
                let first = Arc::new(std::sync::atomic::AtomicBool::new(true));
                let svc = hyper::service::service_fn(move |req: http::Request<hyper::body::Incoming>| {
                    let release = release.clone();
                    let release_b = release_b.clone();
                    let first = first.clone();
                    async move {
                        if first.swap(false, std::sync::atomic::Ordering::SeqCst) {
                            release.notified().await;
                        } else if req.uri().path() == "/b" {
                            // B's exchange stays open while C is being watched
                            release_b.notified().await;
                        }
                        Ok::<_, std::convert::Infallible>(http::Response::new(hyperdriver::Body::empty()))
                    }
                });
                let _ = hyper::server::conn::http1::Builder::new().serve_connection(TokioIo::new(s1), svc).await;
                std::future::pending::<()>().await;
                drop(incoming);
            });
        }
        let fail = Arc::new(tokio::sync::Notify::new());
        let mut cfg = hyperdriver::client::PoolConfig::default();
        cfg.idle_timeout = None;
        cfg.continue_after_preemption = cont;
        let client = hyperdriver::client::Client::builder()
            .with_protocol(HttpConnectionBuilder::default())
            .with_transport(SecondFails { inner: DuplexTransport::new(4096, tx.clone()), calls: Arc::new(AtomicUsize::new(0)), fail: fail.clone() })
            .with_pool(cfg)
            .without_timeout()
            .build();
        let go = |version: http::Version, path: &'static str| {
            let mut c = client.clone();
            tokio::spawn(async move {
                let req = http::Request::get(format!("http://origin.test{path}")).version(version).body(hyperdriver::Body::empty()).unwrap();
                match c.request(req).await {
                    Ok(r) => format!("{}", r.status().as_u16()),
                    Err(e) => format!("err:{e}"),
                }
            })
        };
        let settle = || async {
            for _ in 0..30 {
                tokio::task::yield_now().await;
            }
            tokio::time::sleep(std::time::Duration::from_millis(40)).await;
        };
        let ra = go(http::Version::HTTP_11, "/a");
        settle().await;
        let mut rb = go(http::Version::HTTP_2, "/b");
        settle().await;
        let mut rc = go(c_version, "/c");
        settle().await;
        release.notify_waiters();
        let out_a = ra.await.unwrap();
        settle().await;
        // if B's own attempt lives on in the background (continue_after_preemption) it fails now
        fail.notify_waiters();
        settle().await;
        async fn wait(h: &mut tokio::task::JoinHandle<String>) -> String {
            match tokio::time::timeout(std::time::Duration::from_millis(1500), h).await {
                Ok(Ok(s)) => s,
                Ok(Err(e)) => format!("join:{e}"),
                Err(_) => "timeout".to_string(),
            }
        }
        // C is watched while B still holds the connection that pre-empted its attempt
        let out_c = wait(&mut rc).await;
        release_b.notify_waiters();
        release_b.notify_one();
        let out_b = wait(&mut rb).await;
        vec![format!("ra={out_a}"), format!("rb={out_b}"), format!("rc={out_c}"), "result=ok".into()]
    })
}

/// C14 (second clause): request R0 holds connection 1 (its handler is gated); request R1 starts its
/// own dial (connection 2, not accepted yet) and is polled; R0 finishes and its connection serves R1.
/// Then the listener accepts connection 2.  With continue_after_preemption the abandoned attempt
/// completes in the background and its connection ends up in the pool: two overlapping requests
/// afterwards need no further dial.  Without it nothing is left behind (one further dial).
pub fn pool_bg_attempt(kv: &BTreeMap<String, String>) -> Vec<String> {
    use hyperdriver::bridge::io::TokioIo;
    use hyperdriver::client::conn::protocol::auto::HttpConnectionBuilder;
    use hyperdriver::client::conn::transport::duplex::DuplexTransport;
    use hyperdriver::server::conn::Accept;
    use std::sync::atomic::{AtomicUsize, Ordering};
    use std::sync::Arc;
    use std::task::{Context, Poll};
    #[derive(Clone)]
    struct Counting(DuplexTransport, Arc<AtomicUsize>);
    impl tower::Service<http::request::Parts> for Counting {
        type Response = <DuplexTransport as tower::Service<http::request::Parts>>::Response;
        type Error = <DuplexTransport as tower::Service<http::request::Parts>>::Error;
        type Future = <DuplexTransport as tower::Service<http::request::Parts>>::Future;
        fn poll_ready(&mut self, cx: &mut Context<'_>) -> Poll<Result<(), Self::Error>> {
            self.0.poll_ready(cx)
        }
        fn call(&mut self, req: http::request::Parts) -> Self::Future {
            self.1.fetch_add(1, Ordering::SeqCst);
            self.0.call(req)
        }
    }
    let cont = kv.get("cont").map(|s| s == "1").unwrap_or(true);
    let rt = tokio::runtime::Builder::new_current_thread().enable_all().build().unwrap();
    rt.block_on(async move {
        let (tx, mut incoming) = hyperdriver::stream::duplex::pair();
        let gate = Arc::new(tokio::sync::Notify::new()); // releases "/hold" requests
        let accept_more = Arc::new(tokio::sync::Notify::new());
        {
            let gate = gate.clone();
            let accept_more = accept_more.clone();
            tokio::spawn(async move {
                let mut n = 0;
                loop {
                    if n == 1 {
                        accept_more.notified().await;
                    }
                    let Ok(s) = std::future::poll_fn(|cx| std::pin::Pin::new(&mut incoming).poll_accept(cx)).await else { break };
                    n += 1;
                    let gate = gate.clone();
                    tokio::spawn(async move {
                        let svc = hyper::service::service_fn(move |req: http::Request<hyper::body::Incoming>| {
                            let gate = gate.clone();
                            async move {
                                if req.uri().path() == "/hold" {
                                    gate.notified().await;
                                }
                                Ok::<_, std::convert::Infallible>(http::Response::new(hyperdriver::Body::empty()))
                            }
                        });
                        let _ = hyper::server::conn::http1::Builder::new().serve_connection(TokioIo::new(s), svc).await;
                    });
                }
            });
        }
        let dials = Arc::new(AtomicUsize::new(0));
        let mut cfg = hyperdriver::client::PoolConfig::default();
        cfg.idle_timeout = None;
        cfg.continue_after_preemption = cont;
        let client = hyperdriver::client::Client::builder()
            .with_protocol(HttpConnectionBuilder::default())
            .with_transport(Counting(DuplexTransport::new(4096, tx.clone()), dials.clone()))
            .with_pool(cfg)
            .without_timeout()
            .build();
        let go = |path: &'static str| {
            let mut c = client.clone();
            tokio::spawn(async move {
                let req = http::Request::get(format!("http://origin.test{path}")).version(http::Version::HTTP_11).body(hyperdriver::Body::empty()).unwrap();
                match tokio::time::timeout(std::time::Duration::from_millis(2000), c.request(req)).await {
                    Ok(Ok(r)) => format!("{}", r.status().as_u16()),
                    Ok(Err(e)) => format!("err:{e}"),
                    Err(_) => "timeout".to_string(),
                }
            })
        };
        let settle = || async {
            for _ in 0..30 {
                tokio::task::yield_now().await;
            }
            tokio::time::sleep(std::time::Duration::from_millis(40)).await;
        };
        let r0 = go("/hold");
        settle().await;
        let r1 = go("/"); // dials connection 2 (not accepted yet) and is polled while it waits
        settle().await;
        gate.notify_waiters(); // R0 finishes: connection 1 is released and serves R1
        let out0 = r0.await.unwrap();
        let out1 = r1.await.unwrap();
        settle().await;
        accept_more.notify_one(); // now connection 2 would be accepted
        for _ in 0..5 {
            accept_more.notify_one();
            settle().await;
        }
        let before = dials.load(Ordering::SeqCst);
        // two overlapping requests: with an extra pooled connection from the background attempt no dial is needed
        let a = go("/hold");
        settle().await;
        let b = go("/hold");
        settle().await;
        gate.notify_waiters();
        let (oa, ob) = (a.await.unwrap(), b.await.unwrap());
        let extra = dials.load(Ordering::SeqCst) - before;
        vec![format!("r0={out0}"), format!("r1={out1}"), format!("ra={oa}"), format!("rb={ob}"), format!("dials_before={before}"), format!("extra_dials={extra}"), "result=ok".into()]
    })
}
