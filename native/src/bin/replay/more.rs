//! further replay families (added as the obligations that need them are written)
use std::collections::BTreeMap;


fn version(s: &str) -> http::Version {
    match s {
        "0" | "HTTP_09" => http::Version::HTTP_09,
        "1" | "HTTP_10" => http::Version::HTTP_10,
        "2" | "HTTP_11" => http::Version::HTTP_11,
        "3" | "HTTP_2" => http::Version::HTTP_2,
        _ => http::Version::HTTP_3,
    }
}

/// C17: a request with the given http::Version constant issued through the public pooled client
/// service.  `call` resolves the protocol synchronously; nothing is ever connected.
fn version_into_protocol(kv: &BTreeMap<String, String>) -> Vec<String> {
    let v = version(kv.get("version").map(|s| s.as_str()).unwrap_or("2"));
    let mut out = vec![];
    let p = hyperdriver::client::conn::protocol::HttpProtocol::from(v);
    out.push(format!("protocol={p:?}"));
    let uri = match (kv.get("scheme"), kv.get("authority")) {
        (Some(s), Some(a)) => format!("{}://{}{}", s, a, kv.get("pq").cloned().unwrap_or_default()),
        _ => "http://127.0.0.1:1/".to_string(),
    };
    let req = match http::Request::builder().version(v).uri(uri.as_str()).body(hyperdriver::Body::empty()) {
        Ok(r) => r,
        Err(e) => return vec![format!("input_error={e}")],
    };
    let rt = tokio::runtime::Builder::new_current_thread().enable_all().build().unwrap();
    let r = rt.block_on(async move {
        let mut client = hyperdriver::Client::new_tcp_http();
        tokio::time::timeout(std::time::Duration::from_millis(500), client.request(req)).await
    });
    match r {
        Ok(Ok(_)) => out.push("result=ok".into()),
        Ok(Err(e)) => out.push(format!("result=err:{e}")),
        Err(_) => out.push("result=err:timeout".into()),
    }
    out
}

/// C12: an https/wss request through the public TLS transport wrapper over an in-process duplex
/// transport.  The peer never answers the handshake; what matters is whether building the TLS
/// stream for this host panics, and which server name is offered.
#[cfg(feature = "tls")]
fn tls_connect(kv: &BTreeMap<String, String>) -> Vec<String> {
    use hyperdriver::server::conn::AcceptExt as _;
    use std::sync::Arc;
    use tower::ServiceExt as _;
    let uri = format!("{}://{}{}", kv.get("scheme").cloned().unwrap_or("https".into()), kv.get("authority").cloned().unwrap_or_default(), kv.get("pq").cloned().unwrap_or_default());
    let mut b = http::Request::builder().uri(uri.as_str());
    if let Some(h) = kv.get("header.host") {
        b = b.header("host", h.as_str());
    }
    let req = match b.body(()) {
        Ok(r) => r,
        Err(e) => return vec![format!("input_error={e}")],
    };
    let (parts, _) = req.into_parts();
    let tls_configured = kv.get("tls_configured").map(|s| s != "0").unwrap_or(true);
    let rt = tokio::runtime::Builder::new_current_thread().enable_all().build().unwrap();
    let r = rt.block_on(async move {
        let roots = rustls::RootCertStore::empty();
        let config = rustls::ClientConfig::builder_with_provider(Arc::new(rustls::crypto::ring::default_provider()))
            .with_safe_default_protocol_versions()
            .unwrap()
            .with_root_certificates(roots)
            .with_no_client_auth();
        let (client, incoming) = hyperdriver::stream::duplex::pair();
        let plain = hyperdriver::client::conn::transport::duplex::DuplexTransport::new(1024, client);
        // the public optional-TLS transport: TLS configured unless the scenario says otherwise
        let transport = if tls_configured {
            hyperdriver::client::conn::TlsTransport::new(plain).with_tls(Arc::new(config))
        } else {
            hyperdriver::client::conn::TlsTransport::new(plain)
        };
        // the peer records the server name of the ClientHello it receives (if any arrives)
        let seen = Arc::new(std::sync::Mutex::new(None::<String>));
        let seen2 = seen.clone();
        let server = tokio::spawn(async move {
            use tokio::io::AsyncReadExt as _;
            let Ok(mut conn) = incoming.accept().await else { return };
            let mut acceptor = rustls::server::Acceptor::default();
            let mut buf = vec![0u8; 4096];
            for _ in 0..8 {
                let n = match tokio::time::timeout(std::time::Duration::from_millis(120), conn.read(&mut buf)).await {
                    Ok(Ok(n)) if n > 0 => n,
                    _ => break,
                };
                let mut rd = &buf[..n];
                if acceptor.read_tls(&mut rd).is_err() {
                    break;
                }
                match acceptor.accept() {
                    Ok(Some(accepted)) => {
                        *seen2.lock().unwrap() = Some(accepted.client_hello().server_name().unwrap_or("none").to_string());
                        break;
                    }
                    Ok(None) => continue,
                    Err(_) => break,
                }
            }
            tokio::time::sleep(std::time::Duration::from_millis(300)).await;
            drop(conn);
        });
        let out = tokio::time::timeout(std::time::Duration::from_millis(200), transport.oneshot(parts)).await;
        tokio::time::sleep(std::time::Duration::from_millis(30)).await;
        server.abort();
        let sni = seen.lock().unwrap().clone();
        (out, sni)
    });
    let (r, sni) = r;
    let mut lines = match r {
        Ok(Ok(stream)) => {
            use hyperdriver::info::HasTlsConnectionInfo as _;
            vec![format!("stream={}", if stream.tls_info().is_some() { "tls" } else { "plain" }), "result=ok".into()]
        }
        Ok(Err(e)) => vec![format!("result=err:{e}")],
        Err(_) => vec!["stream=tls-handshake-pending".into(), "result=err:timeout (handshake pending)".into()],
    };
    if let Some(s) = sni {
        lines.push(format!("sni={s}"));
    }
    lines
}
#[cfg(not(feature = "tls"))]
fn tls_connect(_kv: &BTreeMap<String, String>) -> Vec<String> {
    vec!["input_error=built without the tls feature".into()]
}

/// C20: one request through the public ValidateSNI layer with a recording inner service.
#[cfg(feature = "sni")]
fn sni(kv: &BTreeMap<String, String>) -> Vec<String> {
    use hyperdriver::info::TlsConnectionInfo;
    use hyperdriver::server::conn::tls::sni::ValidateSNI;
    use std::sync::{Arc, Mutex};
    use tower::{Layer, Service};
    let mut b = http::Request::builder().version(version(kv.get("version").map(|s| s.as_str()).unwrap_or("2")));
    let uri = match kv.get("authority") {
        Some(a) => format!("https://{a}/"),
        None => "/".to_string(),
    };
    b = b.uri(uri.as_str());
    if let Some(h) = kv.get("header.host") {
        b = b.header("host", h.as_str());
    }
    let mut req = match b.body(()) {
        Ok(r) => r,
        Err(e) => return vec![format!("input_error={e}")],
    };
    match kv.get("tls").map(|s| s.as_str()) {
        Some("sni") => {
            let mut info = TlsConnectionInfo::default();
            info.server_name = kv.get("server_name").cloned();
            req.extensions_mut().insert(info);
        }
        Some("no_sni") => {
            req.extensions_mut().insert(TlsConnectionInfo::default());
        }
        _ => {}
    }
    let out = Arc::new(Mutex::new(Vec::<String>::new()));
    let o2 = out.clone();
    let inner = tower::service_fn(move |req: http::Request<()>| {
        let o2 = o2.clone();
        async move {
            let mut o = o2.lock().unwrap();
            o.push("forwarded=1".into());
            if let Some(i) = req.extensions().get::<TlsConnectionInfo>() {
                o.push(format!("validated={}", i.validated_server_name));
            }
            Ok::<_, std::io::Error>(http::Response::new(()))
        }
    });
    let mut svc = ValidateSNI.layer(inner);
    let rt = tokio::runtime::Builder::new_current_thread().enable_all().build().unwrap();
    let r = rt.block_on(async move { svc.call(req).await });
    let mut o = out.lock().unwrap().clone();
    match r {
        Ok(_) => o.push("result=ok".into()),
        Err(e) => o.push(format!("result=err:{e}")),
    }
    o
}
#[cfg(not(feature = "sni"))]
fn sni(_kv: &BTreeMap<String, String>) -> Vec<String> {
    vec!["input_error=built without the sni feature".into()]
}

/// C16: the crate-private address ordering through the `verif-hooks` feature.
/// `families` is a string over {4,6}; the i-th address is 10.0.0.i / ::i so positions are identifiable.
fn sort_preferred(kv: &BTreeMap<String, String>) -> Vec<String> {
    use hyperdriver::client::conn::dns::{verif_hooks, IpVersion};
    use std::net::{IpAddr, Ipv4Addr, Ipv6Addr, SocketAddr};
    let fams = kv.get("families").cloned().unwrap_or_default();
    let addrs: Vec<SocketAddr> = fams
        .chars()
        .enumerate()
        .map(|(i, c)| {
            if c == '6' {
                SocketAddr::new(IpAddr::V6(Ipv6Addr::new(0, 0, 0, 0, 0, 0, 0, i as u16 + 1)), 1000 + i as u16)
            } else {
                SocketAddr::new(IpAddr::V4(Ipv4Addr::new(10, 0, 0, i as u8 + 1)), 1000 + i as u16)
            }
        })
        .collect();
    let prefer = match kv.get("prefer").map(|s| s.as_str()) {
        Some("v4") => Some(IpVersion::V4),
        Some("v6") => Some(IpVersion::V6),
        _ => None,
    };
    let port = kv.get("port").and_then(|p| p.parse::<u16>().ok());
    let out = verif_hooks::order(addrs.clone(), port, prefer);
    let idx: Vec<String> = out
        .iter()
        .map(|a| match addrs.iter().position(|b| b.ip() == a.ip()) {
            Some(i) => i.to_string(),
            None => "?".into(),
        })
        .collect();
    let ports: Vec<String> = out.iter().map(|a| a.port().to_string()).collect();
    vec![format!("order={}", idx.join(",")), format!("ports={}", ports.join(",")), "result=ok".into()]
}

/// C18: one operation through the transport dispatch wrapper `stream::Braid` over a real connected pair
/// (`arm` = duplex | unix | tcp).  11 bytes are written, then `op` (flush | shutdown | none) is applied
/// while the writer stays alive; the peer reports what it received and whether it saw end-of-stream;
/// after a flush a second write must still get through; the reverse direction is read through the
/// writer's `Braid` as well.
fn braid_op(kv: &BTreeMap<String, String>) -> Vec<String> {
    use hyperdriver::stream::Braid;
    use tokio::io::{AsyncReadExt, AsyncWriteExt};
    let arm = kv.get("arm").cloned().unwrap_or_else(|| "duplex".into());
    let op = kv.get("op").cloned().unwrap_or_else(|| "shutdown".into());
    let rt = tokio::runtime::Builder::new_current_thread().enable_all().build().unwrap();
    rt.block_on(async move {
        let (mut w, mut r): (Braid, Braid) = match arm.as_str() {
            "duplex" => {
                let (a, b) = hyperdriver::stream::duplex::DuplexStream::new(64);
                (a.into(), b.into())
            }
            "unix" => match hyperdriver::stream::UnixStream::pair() {
                Ok((a, b)) => (a.into(), b.into()),
                Err(e) => return vec![format!("input_error=unix pair: {e}")],
            },
            "tcp" => {
                let l = match tokio::net::TcpListener::bind((std::net::Ipv4Addr::LOCALHOST, 0)).await {
                    Ok(l) => l,
                    Err(e) => return vec![format!("input_error=tcp listener: {e}")],
                };
                let addr = l.local_addr().unwrap();
                let (c, s) = tokio::join!(tokio::net::TcpStream::connect(addr), l.accept());
                match (c, s) {
                    (Ok(c), Ok((s, peer))) => (
                        hyperdriver::stream::TcpStream::client(c).into(),
                        hyperdriver::stream::TcpStream::server(s, peer).into(),
                    ),
                    _ => return vec!["input_error=tcp pair".into()],
                }
            }
            _ => return vec![format!("input_error=unknown arm {arm}")],
        };
        let mut out = Vec::new();
        let t = std::time::Duration::from_millis(500);
        if let Err(e) = w.write_all(b"hello world").await {
            return vec![format!("write=err:{e}"), "result=ok".into()];
        }
        match op.as_str() {
            "flush" => out.push(format!("op_result={}", w.flush().await.map(|_| "ok".to_string()).unwrap_or_else(|e| format!("err:{e}")))),
            "shutdown" => out.push(format!("op_result={}", w.shutdown().await.map(|_| "ok".to_string()).unwrap_or_else(|e| format!("err:{e}")))),
            _ => {}
        }
        let mut got = vec![0u8; 11];
        let first = tokio::time::timeout(t, r.read_exact(&mut got)).await;
        out.push(format!("bytes_ok={}", (matches!(first, Ok(Ok(_))) && &got[..] == b"hello world") as u8));
        if op != "shutdown" {
            // the write side must still be usable
            let again = w.write_all(b"again").await.is_ok() && w.flush().await.is_ok();
            let mut b5 = [0u8; 5];
            let r2 = tokio::time::timeout(t, r.read_exact(&mut b5)).await;
            out.push(format!("write_after_op_ok={}", (again && matches!(r2, Ok(Ok(_))) && &b5 == b"again") as u8));
        }
        let mut rest = Vec::new();
        let eof = tokio::time::timeout(t, r.read_to_end(&mut rest)).await;
        out.push(format!("eof_seen={}", matches!(eof, Ok(Ok(_))) as u8));
        out.push(format!("extra_bytes={}", rest.len()));
        // reverse direction, read through the writer's wrapper
        let back = r.write_all(b"reply").await.is_ok() && r.flush().await.is_ok();
        let mut b5 = [0u8; 5];
        let r3 = tokio::time::timeout(t, w.read_exact(&mut b5)).await;
        out.push(format!("reverse_ok={}", (back && matches!(r3, Ok(Ok(_))) && &b5 == b"reply") as u8));
        out.push("result=ok".into());
        out
    })
}

/// C16: which family is attempted first when local addresses are bound.  Two loopback listeners (IPv4 and
/// IPv6) both accept; `connect_to_addrs` gets one address of each family, in both resolver orders, with a
/// long stagger delay, so the stream that comes back belongs to the attempt started first.
fn binding_pref(kv: &BTreeMap<String, String>) -> Vec<String> {
    use hyperdriver::client::conn::transport::tcp::{TcpTransport, TcpTransportConfig};
    use std::net::{Ipv4Addr, Ipv6Addr, SocketAddr};
    let b4 = kv.get("bound4").map(|s| s == "1").unwrap_or(false);
    let b6 = kv.get("bound6").map(|s| s == "1").unwrap_or(false);
    let rt = tokio::runtime::Builder::new_current_thread().enable_all().build().unwrap();
    rt.block_on(async move {
        let l4 = match tokio::net::TcpListener::bind((Ipv4Addr::LOCALHOST, 0)).await {
            Ok(l) => l,
            Err(e) => return vec![format!("input_error=no IPv4 loopback: {e}")],
        };
        let l6 = match tokio::net::TcpListener::bind((Ipv6Addr::LOCALHOST, 0)).await {
            Ok(l) => l,
            Err(e) => return vec![format!("input_error=no IPv6 loopback: {e}")],
        };
        let a4: SocketAddr = l4.local_addr().unwrap();
        let a6: SocketAddr = l6.local_addr().unwrap();
        let mut config = TcpTransportConfig::default();
        config.happy_eyeballs_timeout = Some(std::time::Duration::from_secs(5));
        config.happy_eyeballs_concurrency = Some(1);
        config.connect_timeout = Some(std::time::Duration::from_secs(10));
        config.local_address_ipv4 = b4.then_some(Ipv4Addr::LOCALHOST);
        config.local_address_ipv6 = b6.then_some(Ipv6Addr::LOCALHOST);
        let t: TcpTransport = TcpTransport::builder().with_config(config).with_gai_resolver().build();
        let mut out = Vec::new();
        for (tag, addrs) in [("first_a", vec![a4, a6]), ("first_b", vec![a6, a4])] {
            let r = tokio::time::timeout(std::time::Duration::from_secs(3), t.connect_to_addrs(addrs)).await;
            match r {
                Ok(Ok(s)) => match s.peer_addr() {
                    Ok(p) => out.push(format!("{tag}={}", if p.is_ipv4() { 4 } else { 6 })),
                    Err(e) => out.push(format!("{tag}=err:{e}")),
                },
                Ok(Err(e)) => out.push(format!("{tag}=err:{e}")),
                Err(_) => out.push(format!("{tag}=err:timeout")),
            }
        }
        out.push("result=ok".into());
        out
    })
}

/// C09: `cancelled_first` clients start connecting to a duplex listener and give up (their connect
/// future is dropped after its first poll), then `waiting` well-behaved clients connect; the
/// listener accepts once.  A cancelled connect must not surface as a listener error.
fn duplex_cancelled_connect(kv: &BTreeMap<String, String>) -> Vec<String> {
    use hyperdriver::server::conn::Accept;
    use std::future::Future;
    use std::pin::Pin;
    use std::task::{Context, Poll};
    let cancelled: usize = kv.get("cancelled_first").and_then(|s| s.parse().ok()).unwrap_or(1);
    let waiting: usize = kv.get("waiting").and_then(|s| s.parse().ok()).unwrap_or(0);
    // buffer sizes the clients ask for (in queue order) and the listener's own cap, if any
    let sizes: Vec<usize> = kv.get("bufsizes").map(|s| s.split(',').filter(|x| !x.is_empty()).map(|x| x.parse::<u64>().unwrap_or(1024).min(1 << 20) as usize).collect()).unwrap_or_default();
    let cap: Option<usize> = kv.get("cap").and_then(|s| s.parse::<u64>().ok()).map(|c| c.min(1 << 20) as usize);
    let rt = tokio::runtime::Builder::new_current_thread().enable_all().build().unwrap();
    rt.block_on(async move {
        let (client, incoming) = hyperdriver::stream::duplex::pair();
        let mut incoming = match cap {
            Some(c) => incoming.with_max_buf_size(c),
            None => incoming,
        };
        let mut next_size = {
            let mut i = 0;
            move || {
                let v = sizes.get(i).copied().unwrap_or(1024);
                i += 1;
                v
            }
        };
        let w = futures_util::task::noop_waker();
        let mut cx = Context::from_waker(&w);
        for _ in 0..cancelled {
            let mut fut = Box::pin(client.connect(next_size()));
            let _ = fut.as_mut().poll(&mut cx); // request is now queued at the listener
            drop(fut); // ... and the client gives up
        }
        let mut served = 0;
        let mut tasks = vec![];
        for _ in 0..waiting {
            let c = client.clone();
            let size = next_size();
            tasks.push(tokio::spawn(async move { c.connect(size).await.is_ok() }));
        }
        tokio::task::yield_now().await;
        tokio::time::sleep(std::time::Duration::from_millis(20)).await;
        let r = std::future::poll_fn(|cx| match Pin::new(&mut incoming).poll_accept(cx) {
            Poll::Pending => Poll::Ready(None),
            Poll::Ready(r) => Poll::Ready(Some(r)),
        })
        .await;
        let mut out = vec![];
        match r {
            None => out.push("accept=pending".to_string()),
            Some(Ok(_s)) => {
                out.push("accept=ok".to_string());
                tokio::time::sleep(std::time::Duration::from_millis(20)).await;
                for t in tasks.iter_mut() {
                    if t.is_finished() {
                        if let Ok(true) = t.await {
                            served += 1;
                        }
                    }
                }
            }
            Some(Err(e)) => {
                out.push("accept=err".to_string());
                out.push(format!("accept_error={e}"));
            }
        }
        out.push(format!("served={served}"));
        out.push("listener_handle_alive=true".into());
        out.push("result=ok".into());
        drop(client);
        out
    })
}

/// C19: request A (HTTP/1.1) is in flight on its connection and never answered; request B to the same
/// origin is still dialing (the listener does not accept its connection yet) when A times out - the
/// timeout layer drops A's exchange, which closes A's connection.  Then B's connection is accepted.  B must
/// be served (200); it must not inherit the connection A left behind.  `how=timeout` uses the client's
/// timeout layer, `how=drop` drops A's future.
fn pool_timeout_inflight(kv: &BTreeMap<String, String>) -> Vec<String> {
    use hyperdriver::bridge::io::TokioIo;
    use hyperdriver::client::conn::protocol::auto::HttpConnectionBuilder;
    use hyperdriver::client::conn::transport::duplex::DuplexTransport;
    use hyperdriver::server::conn::Accept;
    use std::sync::Arc;
    let how = kv.get("how").cloned().unwrap_or_else(|| "timeout".into());
    let rt = tokio::runtime::Builder::new_current_thread().enable_all().build().unwrap();
    rt.block_on(async move {
        let (tx, mut incoming) = hyperdriver::stream::duplex::pair();
        let second = Arc::new(tokio::sync::Notify::new());
        {
            let second = second.clone();
            tokio::spawn(async move {
                let mut n = 0;
                loop {
                    if n == 1 {
                        second.notified().await;
                    }
                    let s = match std::future::poll_fn(|cx| std::pin::Pin::new(&mut incoming).poll_accept(cx)).await {
                        Ok(s) => s,
                        Err(_) => break,
                    };
                    n += 1;
                    tokio::spawn(async move {
                        let svc = hyper::service::service_fn(|req: http::Request<hyper::body::Incoming>| async move {
                            if req.uri().path() == "/slow" {
                                std::future::pending::<()>().await;
                            }
                            Ok::<_, std::convert::Infallible>(http::Response::new(hyperdriver::Body::empty()))
                        });
                        let _ = hyper::server::conn::http1::Builder::new().serve_connection(TokioIo::new(s), svc).await;
                    });
                }
            });
        }
        let mut cfg = hyperdriver::client::PoolConfig::default();
        cfg.idle_timeout = None;
        let builder = hyperdriver::client::Client::builder()
            .with_protocol(HttpConnectionBuilder::default())
            .with_transport(DuplexTransport::new(4096, tx.clone()))
            .with_pool(cfg);
        let client = if how == "timeout" { builder.with_timeout(std::time::Duration::from_millis(600)).build() } else { builder.without_timeout().build() };
        let mut ca = client.clone();
        let a = tokio::spawn(async move {
            let req = http::Request::get("http://origin.test/slow").body(hyperdriver::Body::empty()).unwrap();
            match ca.request(req).await {
                Ok(r) => format!("{}", r.status().as_u16()),
                Err(e) => format!("err:{e}"),
            }
        });
        tokio::time::sleep(std::time::Duration::from_millis(400)).await;
        let mut cb = client.clone();
        let b = tokio::spawn(async move {
            let req = http::Request::get("http://origin.test/fast").body(hyperdriver::Body::empty()).unwrap();
            match tokio::time::timeout(std::time::Duration::from_millis(2500), cb.request(req)).await {
                Ok(Ok(r)) => format!("{}", r.status().as_u16()),
                Ok(Err(e)) => format!("err:{e}"),
                Err(_) => "timeout".to_string(),
            }
        });
        tokio::time::sleep(std::time::Duration::from_millis(100)).await;
        let mut out = vec![];
        if how == "timeout" {
            // A expires at 600 ms, B (issued at 400 ms) at 1000 ms; B's connection is accepted at about 750 ms
            let ra = a.await.unwrap_or_else(|_| "join error".into());
            out.push(format!("a={ra}"));
        } else {
            a.abort();
            let _ = a.await;
            out.push("a=dropped".into());
        }
        tokio::time::sleep(std::time::Duration::from_millis(150)).await;
        second.notify_one();
        let rb = b.await.unwrap_or_else(|_| "join error".into());
        out.push(format!("b={rb}"));
        out.push("result=ok".into());
        out
    })
}

/// C05: a connection left untouched in the pool for `gap_ms` with `idle_timeout = timeout_ms` (0 = never
/// expires, absent = no timeout).  `share=1` uses HTTP/2 (a shareable connection), `share=0` HTTP/1.1.
/// One request, the gap, a second request: it must dial again iff the timeout is non-zero and shorter than
/// the gap.  The gap is chosen far from the timeout by the caller (no race with the clock).
fn pool_idle_expiry(kv: &BTreeMap<String, String>) -> Vec<String> {
    use hyperdriver::bridge::io::TokioIo;
    use hyperdriver::bridge::rt::TokioExecutor;
    use hyperdriver::client::conn::protocol::auto::HttpConnectionBuilder;
    use hyperdriver::client::conn::transport::duplex::DuplexTransport;
    use hyperdriver::server::conn::Accept;
    use std::sync::atomic::{AtomicUsize, Ordering};
    use std::sync::Arc;
    use std::task::{Context, Poll};

    #[derive(Clone)]
    struct Counting(DuplexTransport, Arc<AtomicUsize>);
    impl tower::Service<http::request::Parts> for Counting {
        type Response = <DuplexTransport as tower::Service<http::request::Parts>>::Response;
        type Error = <DuplexTransport as tower::Service<http::request::Parts>>::Error;
        type Future = <DuplexTransport as tower::Service<http::request::Parts>>::Future;
        fn poll_ready(&mut self, cx: &mut Context<'_>) -> Poll<Result<(), Self::Error>> {
            self.0.poll_ready(cx)
        }
        fn call(&mut self, req: http::request::Parts) -> Self::Future {
            self.1.fetch_add(1, Ordering::SeqCst);
            self.0.call(req)
        }
    }
    let share = kv.get("share").map(|s| s == "1").unwrap_or(false);
    let timeout_ms: Option<u64> = kv.get("timeout_ms").and_then(|s| s.parse().ok());
    let gap_ms: u64 = kv.get("gap_ms").and_then(|s| s.parse().ok()).unwrap_or(200);
    let rt = tokio::runtime::Builder::new_current_thread().enable_all().build().unwrap();
    rt.block_on(async move {
        let (tx, mut incoming) = hyperdriver::stream::duplex::pair();
        tokio::spawn(async move {
            loop {
                let s = match std::future::poll_fn(|cx| std::pin::Pin::new(&mut incoming).poll_accept(cx)).await {
                    Ok(s) => s,
                    Err(_) => break,
                };
                tokio::spawn(async move {
                    let svc = hyper::service::service_fn(|_req: http::Request<hyper::body::Incoming>| async move {
                        Ok::<_, std::convert::Infallible>(http::Response::new(hyperdriver::Body::empty()))
                    });
                    let b = hyperdriver::server::conn::auto::Builder::new(TokioExecutor::new());
                    let _ = b.serve_connection_with_upgrades(TokioIo::new(s), svc).await;
                });
            }
        });
        let dials = Arc::new(AtomicUsize::new(0));
        let mut cfg = hyperdriver::client::PoolConfig::default();
        cfg.idle_timeout = timeout_ms.map(std::time::Duration::from_millis);
        cfg.continue_after_preemption = false;
        let client = hyperdriver::client::Client::builder()
            .with_protocol(HttpConnectionBuilder::default())
            .with_transport(Counting(DuplexTransport::new(4096, tx.clone()), dials.clone()))
            .with_pool(cfg)
            .build();
        let version = if share { http::Version::HTTP_2 } else { http::Version::HTTP_11 };
        let mut out = vec![];
        for round in 0..2 {
            let mut c = client.clone();
            let req = http::Request::get("http://origin.test/").version(version).body(hyperdriver::Body::empty()).unwrap();
            let r = match c.request(req).await {
                Ok(r) => format!("{}", r.status().as_u16()),
                Err(e) => format!("err:{e}"),
            };
            out.push(format!("r{round}={r}"));
            if round == 0 {
                for _ in 0..20 {
                    tokio::task::yield_now().await;
                }
                tokio::time::sleep(std::time::Duration::from_millis(gap_ms)).await;
            }
        }
        let d = dials.load(Ordering::SeqCst);
        out.push(format!("dials={d}"));
        let expire = matches!(timeout_ms, Some(t) if t > 0 && t < gap_ms);
        out.push(format!("expected_dials={}", if expire { 2 } else { 1 }));
        out.push("result=ok".into());
        out
    })
}

/// C04 / C05: idle connections of one origin, some of them closed by the peer while idle.  `open=<flags>`
/// lists the idle entries in release order (last = released most recently = looked at first), `1` open,
/// `0` closed by the peer.  The entries are produced by a burst of concurrent HTTP/1.1 requests whose
/// responses are completed one after the other; then the server drops the flagged connections; then as
/// many probes as there are open idle connections are issued together (one probe if there is none).
/// Every open idle connection must be reused (no dial), a closed one never.
fn pool_idle_closed(kv: &BTreeMap<String, String>) -> Vec<String> {
    use hyperdriver::bridge::io::TokioIo;
    use hyperdriver::client::conn::protocol::auto::HttpConnectionBuilder;
    use hyperdriver::client::conn::transport::duplex::DuplexTransport;
    use std::sync::atomic::{AtomicUsize, Ordering};
    use std::sync::{Arc, Mutex};
    use std::task::{Context, Poll};

    #[derive(Clone)]
    struct Counting(DuplexTransport, Arc<AtomicUsize>);
    impl tower::Service<http::request::Parts> for Counting {
        type Response = <DuplexTransport as tower::Service<http::request::Parts>>::Response;
        type Error = <DuplexTransport as tower::Service<http::request::Parts>>::Error;
        type Future = <DuplexTransport as tower::Service<http::request::Parts>>::Future;
        fn poll_ready(&mut self, cx: &mut Context<'_>) -> Poll<Result<(), Self::Error>> {
            self.0.poll_ready(cx)
        }
        fn call(&mut self, req: http::request::Parts) -> Self::Future {
            self.1.fetch_add(1, Ordering::SeqCst);
            self.0.call(req)
        }
    }

    let flags: Vec<bool> = kv.get("open").cloned().unwrap_or_else(|| "10".into()).chars().map(|c| c == '1').collect();
    let n = flags.len();
    if n == 0 || n > 6 {
        return vec!["input_error=open flags: 1..6 entries".into()];
    }
    let m_open = flags.iter().filter(|f| **f).count();
    let probes = m_open.max(1);
    let rt = tokio::runtime::Builder::new_current_thread().enable_all().build().unwrap();
    rt.block_on(async move {
        let (tx, incoming) = hyperdriver::stream::duplex::pair();
        let in_flight = Arc::new(AtomicUsize::new(0));
        let (turn_tx, turn_rx) = tokio::sync::watch::channel::<i64>(-1);
        let conn_of: Arc<Mutex<Vec<Option<usize>>>> = Arc::new(Mutex::new(vec![None; n]));
        let probe_conns: Arc<Mutex<Vec<usize>>> = Arc::new(Mutex::new(vec![]));
        let handles: Arc<Mutex<Vec<tokio::task::JoinHandle<()>>>> = Arc::new(Mutex::new(vec![]));
        let probe_gate = Arc::new(tokio::sync::Notify::new());
        let probes_in = Arc::new(AtomicUsize::new(0));
        {
            let in_flight = in_flight.clone();
            let conn_of = conn_of.clone();
            let probe_conns = probe_conns.clone();
            let handles = handles.clone();
            let probe_gate = probe_gate.clone();
            let probes_in = probes_in.clone();
            tokio::spawn(async move {
                use hyperdriver::server::conn::Accept;
                let mut incoming = incoming;
                let mut cid = 0usize;
                loop {
                    let stream = match std::future::poll_fn(|cx| std::pin::Pin::new(&mut incoming).poll_accept(cx)).await {
                        Ok(s) => s,
                        Err(_) => break,
                    };
                    let my = cid;
                    cid += 1;
                    let in_flight = in_flight.clone();
                    let conn_of = conn_of.clone();
                    let probe_conns = probe_conns.clone();
                    let turn_rx = turn_rx.clone();
                    let probe_gate = probe_gate.clone();
                    let probes_in = probes_in.clone();
                    let h = tokio::spawn(async move {
                        let svc = hyper::service::service_fn(move |req: http::Request<hyper::body::Incoming>| {
                            let in_flight = in_flight.clone();
                            let conn_of = conn_of.clone();
                            let probe_conns = probe_conns.clone();
                            let mut turn_rx = turn_rx.clone();
                            let probe_gate = probe_gate.clone();
                            let probes_in = probes_in.clone();
                            async move {
                                let k = req.headers().get("x-k").and_then(|v| v.to_str().ok()).unwrap_or("p").to_string();
                                if let Ok(i) = k.parse::<usize>() {
                                    conn_of.lock().unwrap()[i] = Some(my);
                                    in_flight.fetch_add(1, Ordering::SeqCst);
                                    // completed strictly in order of i
                                    let _ = tokio::time::timeout(std::time::Duration::from_secs(3), turn_rx.wait_for(|t| *t >= i as i64)).await;
                                } else {
                                    probe_conns.lock().unwrap().push(my);
                                    let now = probes_in.fetch_add(1, Ordering::SeqCst) + 1;
                                    if now >= probes {
                                        probe_gate.notify_waiters();
                                    } else {
                                        let _ = tokio::time::timeout(std::time::Duration::from_millis(400), probe_gate.notified()).await;
                                    }
                                }
                                Ok::<_, std::convert::Infallible>(http::Response::new(hyperdriver::Body::empty()))
                            }
                        });
                        let _ = hyper::server::conn::http1::Builder::new().serve_connection(TokioIo::new(stream), svc).await;
                    });
                    handles.lock().unwrap().push(h);
                }
            });
        }
        let dials = Arc::new(AtomicUsize::new(0));
        let mut cfg = hyperdriver::client::PoolConfig::default();
        cfg.max_idle_per_host = 8;
        cfg.idle_timeout = None;
        cfg.continue_after_preemption = false;
        let client = hyperdriver::client::Client::builder()
            .with_protocol(HttpConnectionBuilder::default())
            .with_transport(Counting(DuplexTransport::new(4096, tx.clone()), dials.clone()))
            .with_pool(cfg)
            .build();
        let mut out = vec![];
        // first burst: n requests in flight together, each on its own connection
        let mut hs = vec![];
        for i in 0..n {
            let mut c = client.clone();
            hs.push(tokio::spawn(async move {
                let req = http::Request::get("http://origin.test/").header("x-k", i.to_string()).body(hyperdriver::Body::empty()).unwrap();
                c.request(req).await.map(|r| r.status().as_u16())
            }));
        }
        for _ in 0..200 {
            if in_flight.load(Ordering::SeqCst) >= n {
                break;
            }
            tokio::time::sleep(std::time::Duration::from_millis(5)).await;
        }
        let mut ok = 0;
        for (i, h) in hs.into_iter().enumerate() {
            let _ = turn_tx.send(i as i64);
            if let Ok(Ok(200)) = h.await {
                ok += 1;
            }
            // let this connection find its way back into the pool before the next one is released
            for _ in 0..20 {
                tokio::task::yield_now().await;
            }
            tokio::time::sleep(std::time::Duration::from_millis(30)).await;
        }
        out.push(format!("burst_ok={ok}"));
        out.push(format!("dials_first={}", dials.load(Ordering::SeqCst)));
        // the peer closes the flagged idle connections
        let map: Vec<Option<usize>> = conn_of.lock().unwrap().clone();
        for (i, open) in flags.iter().enumerate() {
            if !*open {
                if let Some(c) = map[i] {
                    handles.lock().unwrap()[c].abort();
                }
            }
        }
        tokio::time::sleep(std::time::Duration::from_millis(80)).await;
        let before = dials.load(Ordering::SeqCst);
        let mut hs = vec![];
        for _ in 0..probes {
            let mut c = client.clone();
            hs.push(tokio::spawn(async move {
                let req = http::Request::get("http://origin.test/").header("x-k", "p").body(hyperdriver::Body::empty()).unwrap();
                c.request(req).await.map(|r| r.status().as_u16())
            }));
        }
        let mut pok = 0;
        for h in hs {
            if let Ok(Ok(200)) = h.await {
                pok += 1;
            }
        }
        out.push(format!("probes={probes}"));
        out.push(format!("probes_ok={pok}"));
        out.push(format!("dials_second={}", dials.load(Ordering::SeqCst) - before));
        out.push(format!("expected_dials={}", if m_open > 0 { 0 } else { 1 }));
        let served: Vec<String> = probe_conns.lock().unwrap().iter().map(|c| match map.iter().position(|x| *x == Some(*c)) {
            Some(i) => i.to_string(),
            None => "new".into(),
        }).collect();
        out.push(format!("served_by={}", served.join(",")));
        out.push("result=ok".into());
        out
    })
}

/// C15: the idle limit when a request that took an idle connection is abandoned before it was ever polled.
/// `max_idle` + 1 HTTP/1.1 requests run together, each on its own connection; `max_idle` of them finish and
/// are released (the idle list is full), one is held by the server.  A further request is created (the pool
/// hands it an idle connection at call time) but not polled; the held request completes and its connection
/// is released; the parked request is dropped.  Then `max_idle` + 1 requests are created together: those that
/// do not have to dial found an idle connection - `idle_after` must not exceed `max_idle`.
fn pool_idle_limit(kv: &BTreeMap<String, String>) -> Vec<String> {
    use http_body_util::BodyExt as _;
    use hyperdriver::bridge::io::TokioIo;
    use hyperdriver::client::conn::protocol::auto::HttpConnectionBuilder;
    use hyperdriver::client::conn::transport::duplex::DuplexTransport;
    use hyperdriver::client::conn::transport::TransportExt as _;
    use hyperdriver::client::ConnectionPoolService;
    use hyperdriver::server::conn::Accept;
    use hyperdriver::service::RequestExecutor;
    use hyperdriver::Body;
    use std::sync::atomic::{AtomicUsize, Ordering};
    use std::sync::Arc;
    use tower::Service as _;
    let m: usize = kv.get("max_idle").and_then(|s| s.parse().ok()).unwrap_or(1);
    if m > 4 {
        return vec!["input_error=max_idle 0..4".into()];
    }
    let rt = tokio::runtime::Builder::new_current_thread().enable_all().build().unwrap();
    rt.block_on(async move {
        let (tx, mut incoming) = hyperdriver::stream::duplex::pair();
        let accepted = Arc::new(AtomicUsize::new(0));
        let hold = Arc::new(tokio::sync::Notify::new());
        {
            let accepted = accepted.clone();
            let hold = hold.clone();
            tokio::spawn(async move {
                loop {
                    let s = match std::future::poll_fn(|cx| std::pin::Pin::new(&mut incoming).poll_accept(cx)).await {
                        Ok(s) => s,
                        Err(_) => break,
                    };
                    accepted.fetch_add(1, Ordering::SeqCst);
                    let hold = hold.clone();
                    tokio::spawn(async move {
                        let svc = hyper::service::service_fn(move |req: http::Request<hyper::body::Incoming>| {
                            let hold = hold.clone();
                            async move {
                                if req.uri().path() == "/hold" {
                                    let _ = tokio::time::timeout(std::time::Duration::from_secs(3), hold.notified()).await;
                                }
                                Ok::<_, std::convert::Infallible>(http::Response::new(Body::empty()))
                            }
                        });
                        let _ = hyper::server::conn::http1::Builder::new().keep_alive(true).serve_connection(TokioIo::new(s), svc).await;
                    });
                }
            });
        }
        let mut cfg = hyperdriver::client::PoolConfig::default();
        cfg.idle_timeout = Some(std::time::Duration::from_secs(60));
        cfg.max_idle_per_host = m;
        cfg.continue_after_preemption = false;
        let mut svc: ConnectionPoolService<_, _, _, Body, hyperdriver::client::pool::UriKey> =
            ConnectionPoolService::new(DuplexTransport::new(1024, tx).without_tls(), HttpConnectionBuilder::default(), RequestExecutor::new(), cfg);
        let request = |path: &str| http::Request::get(format!("http://test{path}")).version(http::Version::HTTP_11).body(Body::empty()).unwrap();
        let settle = || async {
            for _ in 0..20 {
                tokio::task::yield_now().await;
            }
            tokio::time::sleep(std::time::Duration::from_millis(50)).await;
        };
        let mut out = vec![];
        // max_idle + 1 requests together; the last one is held by the server
        let mut futs = vec![];
        for _ in 0..m {
            futs.push(svc.call(request("/")));
        }
        let held = tokio::spawn(svc.call(request("/hold")));
        let mut ok = 0;
        for f in futs.into_iter().map(tokio::spawn).collect::<Vec<_>>() {
            if let Ok(Ok(resp)) = f.await {
                if resp.status() == 200 {
                    ok += 1;
                }
                let _ = resp.into_body().collect().await;
            }
        }
        settle().await;
        out.push(format!("first_ok={ok}"));
        out.push(format!("dials_first={}", accepted.load(Ordering::SeqCst)));
        // a request that takes an idle connection at call time and is never polled
        let parked = svc.call(request("/"));
        // the held request completes: its connection fills the idle list again
        hold.notify_waiters();
        match held.await {
            Ok(Ok(resp)) => {
                let _ = resp.into_body().collect().await;
            }
            _ => out.push("held=err".into()),
        }
        settle().await;
        drop(parked);
        settle().await;
        let before = accepted.load(Ordering::SeqCst);
        let mut probes = vec![];
        for _ in 0..m + 1 {
            probes.push(svc.call(request("/")));
        }
        let mut pok = 0;
        for f in probes.into_iter().map(tokio::spawn).collect::<Vec<_>>() {
            if let Ok(Ok(resp)) = f.await {
                if resp.status() == 200 {
                    pok += 1;
                }
                let _ = resp.into_body().collect().await;
            }
        }
        let dialed = accepted.load(Ordering::SeqCst) - before;
        out.push(format!("probes_ok={pok}"));
        out.push(format!("dials_second={dialed}"));
        out.push(format!("idle_after={}", (m + 1).saturating_sub(dialed)));
        out.push("result=ok".into());
        out
    })
}

/// C15 (and pool reuse in general): `max_idle + 1` concurrent HTTP/1.1 requests to one origin
/// through the public pooled client over an in-process server, all held in flight together so
/// that each needs its own connection; after they complete and the connections are released, a
/// second identical burst is issued.  Connections the second burst did NOT have to dial were
/// retained idle by the pool.
fn pool_release(kv: &BTreeMap<String, String>) -> Vec<String> {
    use hyperdriver::bridge::io::TokioIo;
    use hyperdriver::client::conn::protocol::auto::HttpConnectionBuilder;
    use hyperdriver::client::conn::transport::duplex::DuplexTransport;
    use std::sync::atomic::{AtomicUsize, Ordering};
    use std::sync::Arc;
    use std::task::{Context, Poll};

    #[derive(Clone)]
    struct Counting(DuplexTransport, Arc<AtomicUsize>);
    impl tower::Service<http::request::Parts> for Counting {
        type Response = <DuplexTransport as tower::Service<http::request::Parts>>::Response;
        type Error = <DuplexTransport as tower::Service<http::request::Parts>>::Error;
        type Future = <DuplexTransport as tower::Service<http::request::Parts>>::Future;
        fn poll_ready(&mut self, cx: &mut Context<'_>) -> Poll<Result<(), Self::Error>> {
            self.0.poll_ready(cx)
        }
        fn call(&mut self, req: http::request::Parts) -> Self::Future {
            self.1.fetch_add(1, Ordering::SeqCst);
            self.0.call(req)
        }
    }

    let max_idle: usize = kv.get("max_idle").and_then(|s| s.parse().ok()).unwrap_or(1);
    // `burst`: number of concurrent requests per burst (default: one more than the idle limit)
    let n: usize = kv.get("burst").and_then(|s| s.parse().ok()).unwrap_or(max_idle + 1);
    let rt = tokio::runtime::Builder::new_current_thread().enable_all().build().unwrap();
    rt.block_on(async move {
        let (tx, incoming) = hyperdriver::stream::duplex::pair();
        let in_flight = Arc::new(AtomicUsize::new(0));
        let gate = Arc::new(tokio::sync::Notify::new());
        let target = Arc::new(AtomicUsize::new(n));
        {
            let in_flight = in_flight.clone();
            let gate = gate.clone();
            let target = target.clone();
            tokio::spawn(async move {
                use hyperdriver::server::conn::Accept;
                let mut incoming = incoming;
                loop {
                    let stream = match std::future::poll_fn(|cx| std::pin::Pin::new(&mut incoming).poll_accept(cx)).await {
                        Ok(s) => s,
                        Err(_) => break,
                    };
                    let in_flight = in_flight.clone();
                    let gate = gate.clone();
                    let target = target.clone();
                    tokio::spawn(async move {
                        let svc = hyper::service::service_fn(move |_req: http::Request<hyper::body::Incoming>| {
                            let in_flight = in_flight.clone();
                            let gate = gate.clone();
                            let target = target.clone();
                            async move {
                                // hold the request until the whole burst is in flight
                                let now = in_flight.fetch_add(1, Ordering::SeqCst) + 1;
                                if now >= target.load(Ordering::SeqCst) {
                                    gate.notify_waiters();
                                } else {
                                    let _ = tokio::time::timeout(std::time::Duration::from_millis(1500), gate.notified()).await;
                                }
                                in_flight.fetch_sub(1, Ordering::SeqCst);
                                Ok::<_, std::convert::Infallible>(http::Response::new(hyperdriver::Body::empty()))
                            }
                        });
                        let _ = hyper::server::conn::http1::Builder::new().serve_connection(TokioIo::new(stream), svc).await;
                    });
                }
            });
        }
        let dials = Arc::new(AtomicUsize::new(0));
        let mut cfg = hyperdriver::client::PoolConfig::default();
        cfg.max_idle_per_host = max_idle;
        cfg.idle_timeout = None;
        cfg.continue_after_preemption = false;
        let client = hyperdriver::client::Client::builder()
            .with_protocol(HttpConnectionBuilder::default())
            .with_transport(Counting(DuplexTransport::new(4096, tx.clone()), dials.clone()))
            .with_pool(cfg)
            .build();
        let mut out = vec![];
        let mut per_burst = vec![];
        for burst in 0..2 {
            let before = dials.load(Ordering::SeqCst);
            let mut hs = vec![];
            for _ in 0..n {
                let mut c = client.clone();
                hs.push(tokio::spawn(async move {
                    let req = http::Request::get("http://origin.test/").body(hyperdriver::Body::empty()).unwrap();
                    c.request(req).await.map(|r| r.status().as_u16())
                }));
            }
            let mut ok = 0;
            for h in hs {
                if let Ok(Ok(200)) = h.await {
                    ok += 1;
                }
            }
            out.push(format!("burst{burst}_ok={ok}"));
            per_burst.push(dials.load(Ordering::SeqCst) - before);
            // let the released connections find their way back into the pool
            for _ in 0..20 {
                tokio::task::yield_now().await;
            }
            tokio::time::sleep(std::time::Duration::from_millis(80)).await;
        }
        out.push(format!("dials_first={}", per_burst[0]));
        out.push(format!("dials_second={}", per_burst[1]));
        out.push(format!("idle_after={}", n.saturating_sub(per_burst[1])));
        out.push("result=ok".into());
        out
    })
}

/// C02 / C05: a non-multiplexed connection that the peer closed while it was held must not be
/// handed to a request that is waiting for a connection of that origin.
///
/// Schedule (public pooled Client, in-process duplex server with controlled accepts):
///   A (HTTP/1.1) is served on connection 1, its response says `connection: close`;
///   C (HTTP/2) starts dialing connection 2 (the listener does not accept it yet) -> origin marked connecting;
///   D (HTTP/1.1) therefore only waits; then A's response is released and connection 1 dies;
///   finally connection 2 is accepted and served as HTTP/2.  C and D must both succeed.
fn pool_closed_handback(_kv: &BTreeMap<String, String>) -> Vec<String> {
    use hyperdriver::bridge::io::TokioIo;
    use hyperdriver::bridge::rt::TokioExecutor;
    use hyperdriver::client::conn::protocol::auto::HttpConnectionBuilder;
    use hyperdriver::client::conn::transport::duplex::DuplexTransport;
    use hyperdriver::server::conn::Accept;
    use std::sync::Arc;
    let rt = tokio::runtime::Builder::new_current_thread().enable_all().build().unwrap();
    rt.block_on(async move {
        let (tx, mut incoming) = hyperdriver::stream::duplex::pair();
        let release_a = Arc::new(tokio::sync::Notify::new());
        let accept_second = Arc::new(tokio::sync::Notify::new());
        {
            let release_a = release_a.clone();
            let accept_second = accept_second.clone();
            tokio::spawn(async move {
                // connection 1: HTTP/1.1, one response with `connection: close`, held until released
                let s1 = std::future::poll_fn(|cx| std::pin::Pin::new(&mut incoming).poll_accept(cx)).await.unwrap();
                let rel = release_a.clone();
                tokio::spawn(async move {
                    let svc = hyper::service::service_fn(move |_req: http::Request<hyper::body::Incoming>| {
                        let rel = rel.clone();
                        async move {
                            rel.notified().await;
                            let mut r = http::Response::new(hyperdriver::Body::empty());
                            r.headers_mut().insert("connection", "close".parse().unwrap());
                            Ok::<_, std::convert::Infallible>(r)
                        }
                    });
                    let _ = hyper::server::conn::http1::Builder::new().serve_connection(TokioIo::new(s1), svc).await;
                });
                // connection 2 (and later ones): accepted only when told, served as HTTP/2
                accept_second.notified().await;
                loop {
                    let s = match std::future::poll_fn(|cx| std::pin::Pin::new(&mut incoming).poll_accept(cx)).await {
                        Ok(s) => s,
                        Err(_) => break,
                    };
                    tokio::spawn(async move {
                        let svc = hyper::service::service_fn(|_req: http::Request<hyper::body::Incoming>| async move {
                            Ok::<_, std::convert::Infallible>(http::Response::new(hyperdriver::Body::empty()))
                        });
                        let _ = hyper::server::conn::http2::Builder::new(TokioExecutor::new()).serve_connection(TokioIo::new(s), svc).await;
                    });
                }
            });
        }
        let mut cfg = hyperdriver::client::PoolConfig::default();
        cfg.idle_timeout = None;
        cfg.continue_after_preemption = false;
        let client = hyperdriver::client::Client::builder()
            .with_protocol(HttpConnectionBuilder::default())
            .with_transport(DuplexTransport::new(4096, tx.clone()))
            .with_pool(cfg)
            .without_timeout()
            .build();
        let go = |version: http::Version| {
            let mut c = client.clone();
            tokio::spawn(async move {
                let req = http::Request::get("http://origin.test/").version(version).body(hyperdriver::Body::empty()).unwrap();
                match tokio::time::timeout(std::time::Duration::from_millis(1500), c.request(req)).await {
                    Ok(Ok(r)) => format!("{}", r.status().as_u16()),
                    Ok(Err(e)) => format!("err:{e}"),
                    Err(_) => "timeout".to_string(),
                }
            })
        };
        let settle = || async {
            for _ in 0..30 {
                tokio::task::yield_now().await;
            }
            tokio::time::sleep(std::time::Duration::from_millis(40)).await;
        };
        let a = go(http::Version::HTTP_11);
        settle().await;
        let c = go(http::Version::HTTP_2);
        settle().await;
        let d = go(http::Version::HTTP_11);
        settle().await;
        release_a.notify_waiters();
        settle().await;
        settle().await;
        accept_second.notify_waiters();
        let (ra, rc, rd) = (a.await.unwrap(), c.await.unwrap(), d.await.unwrap());
        vec![format!("a={ra}"), format!("c={rc}"), format!("d={rd}"), "result=ok".into()]
    })
}

/// C04: an HTTP/2 connection that was shared with `followers` waiting requests stays available:
///   request 0 (HTTP/2) dials (the listener does not accept yet), `followers` further HTTP/2 requests to the
///   origin are issued while that attempt is in flight, the connection is accepted and everybody is served;
///   a later HTTP/2 request must be carried on the same connection (one transport connect in total).
fn pool_h2_followers(kv: &BTreeMap<String, String>) -> Vec<String> {
    use hyperdriver::bridge::io::TokioIo;
    use hyperdriver::bridge::rt::TokioExecutor;
    use hyperdriver::client::conn::protocol::auto::HttpConnectionBuilder;
    use hyperdriver::client::conn::transport::duplex::DuplexTransport;
    use hyperdriver::server::conn::Accept;
    use std::sync::atomic::{AtomicUsize, Ordering};
    use std::sync::Arc;
    use std::task::{Context, Poll};
    #[derive(Clone)]
    struct Counting(DuplexTransport, Arc<AtomicUsize>);
    impl tower::Service<http::request::Parts> for Counting {
        type Response = <DuplexTransport as tower::Service<http::request::Parts>>::Response;
        type Error = <DuplexTransport as tower::Service<http::request::Parts>>::Error;
        type Future = <DuplexTransport as tower::Service<http::request::Parts>>::Future;
        fn poll_ready(&mut self, cx: &mut Context<'_>) -> Poll<Result<(), Self::Error>> {
            self.0.poll_ready(cx)
        }
        fn call(&mut self, req: http::request::Parts) -> Self::Future {
            self.1.fetch_add(1, Ordering::SeqCst);
            self.0.call(req)
        }
    }
    let followers: usize = kv.get("followers").and_then(|s| s.parse().ok()).unwrap_or(1);
    let max_idle: usize = kv.get("max_idle").and_then(|s| s.parse().ok()).unwrap_or(8);
    let rt = tokio::runtime::Builder::new_current_thread().enable_all().build().unwrap();
    rt.block_on(async move {
        let (tx, mut incoming) = hyperdriver::stream::duplex::pair();
        let accept = Arc::new(tokio::sync::Notify::new());
        {
            let accept = accept.clone();
            tokio::spawn(async move {
                accept.notified().await;
                loop {
                    let s = match std::future::poll_fn(|cx| std::pin::Pin::new(&mut incoming).poll_accept(cx)).await {
                        Ok(s) => s,
                        Err(_) => break,
                    };
                    tokio::spawn(async move {
                        let svc = hyper::service::service_fn(|_req: http::Request<hyper::body::Incoming>| async move {
                            Ok::<_, std::convert::Infallible>(http::Response::new(hyperdriver::Body::empty()))
                        });
                        let _ = hyper::server::conn::http2::Builder::new(TokioExecutor::new()).serve_connection(TokioIo::new(s), svc).await;
                    });
                }
            });
        }
        let dials = Arc::new(AtomicUsize::new(0));
        let mut cfg = hyperdriver::client::PoolConfig::default();
        cfg.idle_timeout = None;
        cfg.max_idle_per_host = max_idle;
        let client = hyperdriver::client::Client::builder()
            .with_protocol(HttpConnectionBuilder::default())
            .with_transport(Counting(DuplexTransport::new(4096, tx.clone()), dials.clone()))
            .with_pool(cfg)
            .without_timeout()
            .build();
        let go = || {
            let mut c = client.clone();
            tokio::spawn(async move {
                let req = http::Request::get("http://origin.test/").version(http::Version::HTTP_2).body(hyperdriver::Body::empty()).unwrap();
                match tokio::time::timeout(std::time::Duration::from_millis(1500), c.request(req)).await {
                    Ok(Ok(r)) => format!("{}", r.status().as_u16()),
                    Ok(Err(e)) => format!("err:{e}"),
                    Err(_) => "timeout".to_string(),
                }
            })
        };
        let settle = || async {
            for _ in 0..30 {
                tokio::task::yield_now().await;
            }
            tokio::time::sleep(std::time::Duration::from_millis(40)).await;
        };
        let mut hs = vec![go()];
        settle().await;
        for _ in 0..followers {
            hs.push(go());
            settle().await;
        }
        accept.notify_waiters();
        accept.notify_one();
        let mut ok = 0;
        for h in hs {
            if h.await.unwrap() == "200" {
                ok += 1;
            }
        }
        settle().await;
        let first = dials.load(Ordering::SeqCst);
        let later = go().await.unwrap();
        vec![format!("first_ok={ok}"), format!("dials_first={first}"), format!("later={later}"), format!("dials={}", dials.load(Ordering::SeqCst)), "result=ok".into()]
    })
}

/// C14, second clause, for an attempt that has not started yet: a request is created through the public
/// `ConnectionPoolService` (its checkout holds a connector) and is abandoned before its first poll -
/// `how=cancel`: dropped; `how=preempt`: another request's connection is released and handed back first, so the
/// first poll is served by it.  With `cont=1` the abandoned attempt must complete in the background and its
/// connection be in the pool afterwards (two overlapping requests then need no dial); with `cont=0` nothing is left.
fn pool_bg_unpolled(kv: &BTreeMap<String, String>) -> Vec<String> {
    use http_body_util::BodyExt as _;
    use hyperdriver::bridge::io::TokioIo;
    use hyperdriver::client::conn::protocol::auto::HttpConnectionBuilder;
    use hyperdriver::client::conn::transport::duplex::DuplexTransport;
    use hyperdriver::client::conn::transport::TransportExt as _;
    use hyperdriver::client::ConnectionPoolService;
    use hyperdriver::server::conn::Accept;
    use hyperdriver::service::RequestExecutor;
    use hyperdriver::Body;
    use std::sync::atomic::{AtomicUsize, Ordering};
    use std::sync::Arc;
    use tower::Service as _;
    let cont = kv.get("cont").map(|s| s == "1").unwrap_or(true);
    let preempt = kv.get("how").map(|s| s == "preempt").unwrap_or(false);
    let rt = tokio::runtime::Builder::new_current_thread().enable_all().build().unwrap();
    rt.block_on(async move {
        let (tx, mut incoming) = hyperdriver::stream::duplex::pair();
        let accepted = Arc::new(AtomicUsize::new(0));
        let hold = Arc::new(tokio::sync::Notify::new());
        {
            let accepted = accepted.clone();
            let hold = hold.clone();
            tokio::spawn(async move {
                loop {
                    let s = match std::future::poll_fn(|cx| std::pin::Pin::new(&mut incoming).poll_accept(cx)).await {
                        Ok(s) => s,
                        Err(_) => break,
                    };
                    accepted.fetch_add(1, Ordering::SeqCst);
                    let hold = hold.clone();
                    tokio::spawn(async move {
                        let svc = hyper::service::service_fn(move |req: http::Request<hyper::body::Incoming>| {
                            let hold = hold.clone();
                            async move {
                                if req.uri().path() == "/hold" {
                                    let _ = tokio::time::timeout(std::time::Duration::from_secs(3), hold.notified()).await;
                                }
                                Ok::<_, std::convert::Infallible>(http::Response::new(Body::empty()))
                            }
                        });
                        let _ = hyper::server::conn::http1::Builder::new().keep_alive(true).serve_connection(TokioIo::new(s), svc).await;
                    });
                }
            });
        }
        let mut cfg = hyperdriver::client::PoolConfig::default();
        cfg.idle_timeout = None;
        cfg.continue_after_preemption = cont;
        let mut svc: ConnectionPoolService<_, _, _, Body, hyperdriver::client::pool::UriKey> =
            ConnectionPoolService::new(DuplexTransport::new(1024, tx).without_tls(), HttpConnectionBuilder::default(), RequestExecutor::new(), cfg);
        let request = |path: &str| http::Request::get(format!("http://test{path}")).version(http::Version::HTTP_11).body(Body::empty()).unwrap();
        let settle = || async {
            for _ in 0..30 {
                tokio::task::yield_now().await;
            }
            tokio::time::sleep(std::time::Duration::from_millis(50)).await;
        };
        let mut out = vec![];
        let r0 = tokio::spawn(svc.call(request("/hold")));
        settle().await;
        // created (Pool::checkout has run: no idle connection, so it holds its own connector), not polled
        let parked = svc.call(request("/"));
        if !preempt {
            drop(parked);
            settle().await;
            hold.notify_waiters();
            match r0.await {
                Ok(Ok(resp)) => {
                    let _ = resp.into_body().collect().await;
                }
                _ => out.push("r0=err".into()),
            }
            settle().await;
        } else {
            hold.notify_waiters();
            match r0.await {
                Ok(Ok(resp)) => {
                    let _ = resp.into_body().collect().await;
                }
                _ => out.push("r0=err".into()),
            }
            settle().await; // the hand-back task delivers connection 1 to the parked request's waiter
            match tokio::spawn(parked).await {
                Ok(Ok(resp)) => {
                    out.push(format!("r1={}", resp.status().as_u16()));
                    let _ = resp.into_body().collect().await;
                }
                _ => out.push("r1=err".into()),
            }
            settle().await;
        }
        settle().await;
        let before = accepted.load(Ordering::SeqCst);
        let a = tokio::spawn(svc.call(request("/hold")));
        settle().await;
        let b = tokio::spawn(svc.call(request("/hold")));
        settle().await;
        hold.notify_waiters();
        for (n, h) in [("ra", a), ("rb", b)] {
            match h.await {
                Ok(Ok(resp)) => {
                    out.push(format!("{n}={}", resp.status().as_u16()));
                    let _ = resp.into_body().collect().await;
                }
                _ => out.push(format!("{n}=err")),
            }
        }
        let extra = accepted.load(Ordering::SeqCst) - before;
        out.push(format!("dials_before={before}"));
        out.push(format!("extra_dials={extra}"));
        out.push("result=ok".into());
        out
    })
}

/// C02: a connection that is still busy with its previous exchange (released, open, `poll_ready` pending)
/// must not be handed out.  Needs a connection type whose `is_open()` is independent of readiness, so this
/// family drives the public `ConnectionPoolService` with its own `PoolableConnection` over hyperdriver's
/// mock transport (cargo feature `mocks`): request 1 leaves connection 0 busy; `wait_ms` of real time pass
/// (`idle_timeout_ms` is the pool's idle timeout); the hand-back task is woken without the connection having
/// become ready; request 2 must not be given connection 0.
fn pool_busy_handback(kv: &BTreeMap<String, String>) -> Vec<String> {
    use hyperdriver::client::conn::connection::ConnectionError;
    use hyperdriver::client::conn::stream::mock::MockStream;
    use hyperdriver::client::conn::transport::mock::MockTransport;
    use hyperdriver::client::conn::{Connection, ProtocolRequest};
    use hyperdriver::client::pool::{PoolableConnection, Pooled};
    use hyperdriver::client::{ConnectionPoolService, PoolConfig};
    use hyperdriver::service::ExecuteRequest;
    use hyperdriver::Body;
    use std::future::{ready, Future, Ready};
    use std::pin::Pin;
    use std::sync::atomic::{AtomicBool, AtomicUsize, Ordering};
    use std::sync::{Arc, Mutex};
    use std::task::{Context, Poll, Waker};
    use std::time::Duration;

    #[derive(Debug, Default)]
    struct ConnState {
        busy: AtomicBool,
        closed: AtomicBool,
        waker: Mutex<Option<Waker>>,
    }
    impl ConnState {
        fn progress(&self) {
            if let Some(waker) = self.waker.lock().unwrap().take() {
                waker.wake();
            }
        }
        fn finish(&self) {
            self.busy.store(false, Ordering::SeqCst);
            self.progress();
        }
    }
    #[derive(Debug)]
    struct DemoError;
    impl std::fmt::Display for DemoError {
        fn fmt(&self, f: &mut std::fmt::Formatter<'_>) -> std::fmt::Result {
            f.write_str("connection closed")
        }
    }
    impl std::error::Error for DemoError {}
    #[derive(Debug)]
    struct DemoConn {
        id: usize,
        state: Arc<ConnState>,
    }
    impl Connection<Body> for DemoConn {
        type ResBody = Body;
        type Error = DemoError;
        type Future = Ready<Result<http::Response<Body>, DemoError>>;
        fn send_request(&mut self, _request: http::Request<Body>) -> Self::Future {
            self.state.busy.store(true, Ordering::SeqCst);
            ready(Ok(http::Response::new(Body::empty())))
        }
        fn poll_ready(&mut self, cx: &mut Context<'_>) -> Poll<Result<(), Self::Error>> {
            if self.state.closed.load(Ordering::SeqCst) {
                return Poll::Ready(Err(DemoError));
            }
            if self.state.busy.load(Ordering::SeqCst) {
                *self.state.waker.lock().unwrap() = Some(cx.waker().clone());
                return Poll::Pending;
            }
            Poll::Ready(Ok(()))
        }
        fn version(&self) -> http::Version {
            http::Version::HTTP_11
        }
    }
    impl PoolableConnection<Body> for DemoConn {
        fn is_open(&self) -> bool {
            !self.state.closed.load(Ordering::SeqCst)
        }
        fn can_share(&self) -> bool {
            false
        }
        fn reuse(&mut self) -> Option<Self> {
            None
        }
    }
    #[derive(Debug, Clone, Default)]
    struct DemoProtocol {
        connections: Arc<Mutex<Vec<Arc<ConnState>>>>,
        count: Arc<AtomicUsize>,
    }
    impl tower::Service<ProtocolRequest<MockStream, Body>> for DemoProtocol {
        type Response = DemoConn;
        type Error = ConnectionError;
        type Future = Ready<Result<DemoConn, ConnectionError>>;
        fn poll_ready(&mut self, _: &mut Context<'_>) -> Poll<Result<(), Self::Error>> {
            Poll::Ready(Ok(()))
        }
        fn call(&mut self, _req: ProtocolRequest<MockStream, Body>) -> Self::Future {
            let state = Arc::new(ConnState::default());
            self.connections.lock().unwrap().push(state.clone());
            ready(Ok(DemoConn { id: self.count.fetch_add(1, Ordering::SeqCst), state }))
        }
    }
    type Log = Arc<Mutex<Vec<(usize, bool)>>>;
    #[derive(Debug, Clone, Default)]
    struct Observe {
        log: Log,
    }
    impl tower::Service<ExecuteRequest<Pooled<DemoConn, Body>, Body>> for Observe {
        type Response = http::Response<Body>;
        type Error = hyperdriver::client::Error;
        type Future = Pin<Box<dyn Future<Output = Result<Self::Response, Self::Error>> + Send>>;
        fn poll_ready(&mut self, _: &mut Context<'_>) -> Poll<Result<(), Self::Error>> {
            Poll::Ready(Ok(()))
        }
        fn call(&mut self, req: ExecuteRequest<Pooled<DemoConn, Body>, Body>) -> Self::Future {
            let (mut conn, request) = req.into_parts();
            let busy = conn.state.busy.load(Ordering::SeqCst);
            self.log.lock().unwrap().push((conn.id, busy));
            Box::pin(async move { conn.send_request(request).await.map_err(|error| hyperdriver::client::Error::Connection(error.into())) })
        }
    }
    let idle_ms: u64 = kv.get("idle_timeout_ms").and_then(|s| s.parse().ok()).unwrap_or(50);
    let wait_ms: u64 = kv.get("wait_ms").and_then(|s| s.parse().ok()).unwrap_or(80);
    let rt = tokio::runtime::Builder::new_current_thread().enable_all().build().unwrap();
    rt.block_on(async move {
        let request = || http::Request::builder().uri("http://demo.test/").body(Body::empty()).unwrap();
        let settle = || async {
            for _ in 0..10 {
                tokio::task::yield_now().await;
            }
        };
        let protocol = DemoProtocol::default();
        let observe = Observe::default();
        let mut config = PoolConfig::default();
        config.idle_timeout = if idle_ms == 0 { None } else { Some(Duration::from_millis(idle_ms)) };
        config.max_idle_per_host = 4;
        config.continue_after_preemption = false;
        let client: ConnectionPoolService<MockTransport, DemoProtocol, _, Body> =
            ConnectionPoolService::new(MockTransport::single(), protocol.clone(), observe.clone(), config);
        let mut out = vec![];
        if client.request(request()).await.is_err() {
            out.push("r0=err".into());
        }
        settle().await;
        let first = protocol.connections.lock().unwrap()[0].clone();
        std::thread::sleep(Duration::from_millis(wait_ms));
        first.progress(); // woken, not ready
        settle().await;
        if client.request(request()).await.is_err() {
            out.push("r1=err".into());
        }
        settle().await;
        for state in protocol.connections.lock().unwrap().iter() {
            state.finish();
        }
        settle().await;
        let _ = client.request(request()).await;
        let log = observe.log.lock().unwrap().clone();
        let busy = log.iter().any(|(_, b)| *b);
        out.push(format!("log={log:?}").replace(' ', ""));
        out.push(format!("busy_handout={}", busy as u8));
        out.push(format!("conns={}", protocol.connections.lock().unwrap().len()));
        out.push("result=ok".into());
        out
    })
}

/// C06: the pool key derived from a request (public `UriKey: TryFrom<&request::Parts>` + Display).
fn urikey(kv: &BTreeMap<String, String>) -> Vec<String> {
    let mut parts = http::uri::Parts::default();
    if let Some(s) = kv.get("scheme") {
        parts.scheme = http::uri::Scheme::try_from(s.as_str()).ok();
    }
    if let Some(a) = kv.get("authority") {
        match http::uri::Authority::try_from(a.as_str()) {
            Ok(a) => parts.authority = Some(a),
            Err(e) => return vec![format!("input_error={e}")],
        }
    }
    if let Some(p) = kv.get("pq") {
        parts.path_and_query = http::uri::PathAndQuery::try_from(p.as_str()).ok();
    }
    let uri = match http::Uri::from_parts(parts) {
        Ok(u) => u,
        Err(e) => return vec![format!("input_error={e}")],
    };
    let mut b = http::Request::builder().uri(uri);
    if let Some(h) = kv.get("header.host") {
        b = b.header("host", h.as_str());
    }
    let (p, _) = b.body(()).unwrap().into_parts();
    match hyperdriver::client::pool::UriKey::try_from(&p) {
        Ok(k) => vec![format!("key={k}"), "result=ok".into()],
        Err(e) => vec![format!("result=err:{e}")],
    }
}

/// C17: the public TCP transport asked to connect for a request with the given URI (any form).
/// `call` extracts host and port synchronously; the connect itself is given 300 ms.
fn tcp_transport(kv: &BTreeMap<String, String>) -> Vec<String> {
    use tower::Service;
    let mut parts = http::uri::Parts::default();
    if let Some(s) = kv.get("scheme") {
        parts.scheme = http::uri::Scheme::try_from(s.as_str()).ok();
    }
    if let Some(a) = kv.get("authority") {
        match http::uri::Authority::try_from(a.as_str()) {
            Ok(a) => parts.authority = Some(a),
            Err(e) => return vec![format!("input_error={e}")],
        }
    }
    if let Some(p) = kv.get("pq") {
        parts.path_and_query = http::uri::PathAndQuery::try_from(p.as_str()).ok();
    }
    let uri = match http::Uri::from_parts(parts) {
        Ok(u) => u,
        Err(e) => return vec![format!("input_error={e}")],
    };
    let (p, _) = http::Request::builder().uri(uri).body(()).unwrap().into_parts();
    let rt = tokio::runtime::Builder::new_current_thread().enable_all().build().unwrap();
    let r = rt.block_on(async move {
        let mut t: hyperdriver::client::conn::transport::tcp::TcpTransport = Default::default();
        tokio::time::timeout(std::time::Duration::from_millis(300), t.call(p)).await
    });
    match r {
        Ok(Ok(_)) => vec!["result=ok".into()],
        Ok(Err(e)) => vec![format!("result=err:{e}")],
        Err(_) => vec!["result=err:timeout".into()],
    }
}

/// C03: request R0 (HTTP/2) owns the in-flight connection attempt for an origin, request R1 only
/// waits for it.  R0's attempt is then abandoned (`how=cancel`: R0 is dropped) or fails
/// (`how=dial_err`), or is abandoned and then fails in the background (`how=cancel+dial_err`).
/// With `r1_when=after` R1 is instead a fresh probe issued afterwards.  R1 must still resolve - with a connection or an error - once the listener
/// serves connections again; a timeout means it is stranded.
fn pool_stranded_waiter(kv: &BTreeMap<String, String>) -> Vec<String> {
    use hyperdriver::bridge::io::TokioIo;
    use hyperdriver::bridge::rt::TokioExecutor;
    use hyperdriver::client::conn::protocol::auto::HttpConnectionBuilder;
    use hyperdriver::client::conn::transport::duplex::DuplexTransport;
    use hyperdriver::server::conn::Accept;
    use std::sync::atomic::{AtomicUsize, Ordering};
    use std::sync::Arc;
    use std::task::{Context, Poll};

    /// first connect waits for `fail` and then errors (when armed); later connects go through
    #[derive(Clone)]
    struct Flaky {
        inner: DuplexTransport,
        calls: Arc<AtomicUsize>,
        armed: bool,
        fail: Arc<tokio::sync::Notify>,
    }
    impl tower::Service<http::request::Parts> for Flaky {
        type Response = <DuplexTransport as tower::Service<http::request::Parts>>::Response;
        type Error = std::io::Error;
        type Future = std::pin::Pin<Box<dyn std::future::Future<Output = Result<Self::Response, Self::Error>> + Send>>;
        fn poll_ready(&mut self, cx: &mut Context<'_>) -> Poll<Result<(), Self::Error>> {
            self.inner.poll_ready(cx)
        }
        fn call(&mut self, req: http::request::Parts) -> Self::Future {
            let n = self.calls.fetch_add(1, Ordering::SeqCst);
            if self.armed && n == 0 {
                let fail = self.fail.clone();
                return Box::pin(async move {
                    fail.notified().await;
                    Err(std::io::Error::new(std::io::ErrorKind::ConnectionRefused, "injected dial failure"))
                });
            }
            let f = self.inner.call(req);
            Box::pin(f)
        }
    }

    let kv = kv.clone();
    let cont = kv.get("cont").map(|s| s == "1").unwrap_or(false);
    let how = kv.get("how").cloned().unwrap_or("cancel".into());
    let r1_version = if kv.get("r1").map(|s| s == "h2").unwrap_or(false) { http::Version::HTTP_2 } else { http::Version::HTTP_11 };
    let rt = tokio::runtime::Builder::new_current_thread().enable_all().build().unwrap();
    rt.block_on(async move {
        let (tx, mut incoming) = hyperdriver::stream::duplex::pair();
        let start_accepting = Arc::new(tokio::sync::Notify::new());
        {
            let start = start_accepting.clone();
            tokio::spawn(async move {
                start.notified().await;
                loop {
                    let s = match std::future::poll_fn(|cx| std::pin::Pin::new(&mut incoming).poll_accept(cx)).await {
                        Ok(s) => s,
                        Err(_) => break,
                    };
                    tokio::spawn(async move {
                        let svc = hyper::service::service_fn(|_req: http::Request<hyper::body::Incoming>| async move {
                            Ok::<_, std::convert::Infallible>(http::Response::new(hyperdriver::Body::empty()))
                        });
                        // serve whichever protocol the client speaks
                        let b = hyperdriver::server::conn::auto::Builder::new(TokioExecutor::new());
                        let _ = b.serve_connection_with_upgrades(TokioIo::new(s), svc).await;
                    });
                }
            });
        }
        let fail = Arc::new(tokio::sync::Notify::new());
        let mut cfg = hyperdriver::client::PoolConfig::default();
        cfg.idle_timeout = None;
        cfg.continue_after_preemption = cont;
        let client = hyperdriver::client::Client::builder()
            .with_protocol(HttpConnectionBuilder::default())
            .with_transport(Flaky { inner: DuplexTransport::new(4096, tx.clone()), calls: Arc::new(AtomicUsize::new(0)), armed: how.contains("dial_err"), fail: fail.clone() })
            .with_pool(cfg)
            .without_timeout()
            .build();
        let go = |version: http::Version| {
            let mut c = client.clone();
            tokio::spawn(async move {
                let req = http::Request::get("http://origin.test/").version(version).body(hyperdriver::Body::empty()).unwrap();
                match c.request(req).await {
                    Ok(r) => format!("{}", r.status().as_u16()),
                    Err(e) => format!("err:{e}"),
                }
            })
        };
        let settle = || async {
            for _ in 0..30 {
                tokio::task::yield_now().await;
            }
            tokio::time::sleep(std::time::Duration::from_millis(40)).await;
        };
        // `r1_when=after`: R1 is a fresh probe issued only after R0's attempt was abandoned / failed
        let r1_after = kv.get("r1_when").map(|s| s == "after").unwrap_or(false);
        let r0_version = if kv.get("r0").map(|s| s == "h1").unwrap_or(false) { http::Version::HTTP_11 } else { http::Version::HTTP_2 };
        // `cancel_who=r1`: the request that is cancelled is the one waiting on R0's attempt; the
        // reported request is then a fresh probe issued at the end
        let cancel_r1 = kv.get("cancel_who").map(|s| s == "r1").unwrap_or(false);
        let r0 = go(r0_version);
        settle().await;
        let mut r1_early = if r1_after && !cancel_r1 { None } else { Some(go(r1_version)) };
        settle().await;
        if how.contains("cancel") {
            if cancel_r1 {
                if let Some(h) = r1_early.take() {
                    h.abort();
                }
            } else {
                r0.abort();
            }
            settle().await;
        }
        if how.contains("dial_err") {
            // with continue_after_preemption a cancelled attempt lives on in the background: it fails now
            fail.notify_waiters();
        }
        settle().await;
        let mut r1 = match r1_early.take() {
            Some(h) => h,
            None => go(r1_version),
        };
        settle().await;
        start_accepting.notify_waiters();
        let out1 = match tokio::time::timeout(std::time::Duration::from_millis(1500), &mut r1).await {
            Ok(Ok(s)) => s,
            Ok(Err(e)) => format!("join:{e}"),
            Err(_) => "timeout".to_string(),
        };
        vec![format!("r1={out1}"), "result=ok".into()]
    })
}

/// C14: request R1 is dialing its own connection (the listener never accepts it) and has been
/// polled; then request R0's connection to the same origin is released.  R1 must be served on
/// that connection instead of waiting for its own dial.
fn pool_preempt(kv: &BTreeMap<String, String>) -> Vec<String> {
    use hyperdriver::bridge::io::TokioIo;
    use hyperdriver::client::conn::protocol::auto::HttpConnectionBuilder;
    use hyperdriver::client::conn::transport::duplex::DuplexTransport;
    use hyperdriver::server::conn::Accept;
    use std::sync::Arc;
    let cont = kv.get("cont").map(|s| s == "1").unwrap_or(false);
    let rt = tokio::runtime::Builder::new_current_thread().enable_all().build().unwrap();
    let kv = kv.clone();
    rt.block_on(async move {
        let (tx, mut incoming) = hyperdriver::stream::duplex::pair();
        let release = Arc::new(tokio::sync::Notify::new());
        {
            let release = release.clone();
            tokio::spawn(async move {
                // only ONE connection is ever accepted; it is served with keep-alive
                let s1 = std::future::poll_fn(|cx| std::pin::Pin::new(&mut incoming).poll_accept(cx)).await.unwrap();
                let first = Arc::new(std::sync::atomic::AtomicBool::new(true));
                let svc = hyper::service::service_fn(move |_req: http::Request<hyper::body::Incoming>| {
                    let release = release.clone();
                    let first = first.clone();
                    async move {
                        if first.swap(false, std::sync::atomic::Ordering::SeqCst) {
                            release.notified().await;
                        }
                        Ok::<_, std::convert::Infallible>(http::Response::new(hyperdriver::Body::empty()))
                    }
                });
                let _ = hyper::server::conn::http1::Builder::new().serve_connection(TokioIo::new(s1), svc).await;
                // keep the listener alive (but idle) so that the second dial stays pending
                std::future::pending::<()>().await;
                drop(incoming);
            });
        }
        let mut cfg = hyperdriver::client::PoolConfig::default();
        cfg.idle_timeout = None;
        cfg.continue_after_preemption = cont;
        let client = hyperdriver::client::Client::builder()
            .with_protocol(HttpConnectionBuilder::default())
            .with_transport(DuplexTransport::new(4096, tx.clone()))
            .with_pool(cfg)
            .without_timeout()
            .build();
        let go = || {
            let mut c = client.clone();
            tokio::spawn(async move {
                let req = http::Request::get("http://origin.test/").version(http::Version::HTTP_11).body(hyperdriver::Body::empty()).unwrap();
                match c.request(req).await {
                    Ok(r) => format!("{}", r.status().as_u16()),
                    Err(e) => format!("err:{e}"),
                }
            })
        };
        let settle = || async {
            for _ in 0..30 {
                tokio::task::yield_now().await;
            }
            tokio::time::sleep(std::time::Duration::from_millis(40)).await;
        };
        let r0 = go();
        settle().await;
        let mut r1 = go(); // dials connection 2, which is never accepted; gets polled while waiting
        settle().await;
        if let Some(abandon) = kv.get("abandon").cloned() {
            // another request (HTTP/2 or HTTP/1.1) to the same origin starts its own attempt (never accepted either)
            // and is cancelled again: that must not cost R1 its place in the waiting queue
            let mut c = client.clone();
            let r2 = tokio::spawn(async move {
                let version = if abandon == "h2" { http::Version::HTTP_2 } else { http::Version::HTTP_11 };
                let req = http::Request::get("http://origin.test/").version(version).body(hyperdriver::Body::empty()).unwrap();
                let _ = c.request(req).await;
            });
            settle().await;
            r2.abort();
            let _ = r2.await;
            settle().await;
        }
        release.notify_waiters();
        let out0 = r0.await.unwrap();
        let out1 = match tokio::time::timeout(std::time::Duration::from_millis(1500), &mut r1).await {
            Ok(Ok(s)) => s,
            Ok(Err(e)) => format!("join:{e}"),
            Err(_) => "timeout".to_string(),
        };
        let mut lines = vec![format!("r0={out0}"), format!("r1={out1}")];
        if kv.get("chain").map(|s| s == "1").unwrap_or(false) {
            // R1 has released the connection it was handed; a further request must find it in the pool
            // (its own dial would never be accepted either)
            settle().await;
            let mut r2 = go();
            let out2 = match tokio::time::timeout(std::time::Duration::from_millis(1500), &mut r2).await {
                Ok(Ok(s)) => s,
                Ok(Err(e)) => format!("join:{e}"),
                Err(_) => "timeout".to_string(),
            };
            lines.push(format!("r2={out2}"));
        }
        lines.push("result=ok".into());
        lines
    })
}

/// C04: while request R0's HTTP/2 connection attempt is in flight (the listener does not accept
/// it yet), a second request R1 waits for it and is then cancelled; a third HTTP/2 request R2 must
/// still wait for R0's attempt rather than dial.  Reports the number of transport dials.
fn pool_extra_dial(kv: &BTreeMap<String, String>) -> Vec<String> {
    use hyperdriver::client::conn::protocol::auto::HttpConnectionBuilder;
    use hyperdriver::client::conn::transport::duplex::DuplexTransport;
    use std::sync::atomic::{AtomicUsize, Ordering};
    use std::sync::Arc;
    use std::task::{Context, Poll};
    #[derive(Clone)]
    struct Counting(DuplexTransport, Arc<AtomicUsize>);
    impl tower::Service<http::request::Parts> for Counting {
        type Response = <DuplexTransport as tower::Service<http::request::Parts>>::Response;
        type Error = <DuplexTransport as tower::Service<http::request::Parts>>::Error;
        type Future = <DuplexTransport as tower::Service<http::request::Parts>>::Future;
        fn poll_ready(&mut self, cx: &mut Context<'_>) -> Poll<Result<(), Self::Error>> {
            self.0.poll_ready(cx)
        }
        fn call(&mut self, req: http::request::Parts) -> Self::Future {
            self.1.fetch_add(1, Ordering::SeqCst);
            self.0.call(req)
        }
    }
    let cont = kv.get("cont").map(|s| s == "1").unwrap_or(true);
    let r1_version = if kv.get("r1").map(|s| s == "h1").unwrap_or(false) { http::Version::HTTP_11 } else { http::Version::HTTP_2 };
    let cancel_owner = kv.get("cancel").map(|s| s == "owner").unwrap_or(false);
    let rt = tokio::runtime::Builder::new_current_thread().enable_all().build().unwrap();
    rt.block_on(async move {
        // the listener exists but never accepts: every dial stays pending
        let (tx, _incoming) = hyperdriver::stream::duplex::pair();
        let dials = Arc::new(AtomicUsize::new(0));
        let mut cfg = hyperdriver::client::PoolConfig::default();
        cfg.idle_timeout = None;
        cfg.continue_after_preemption = cont;
        let client = hyperdriver::client::Client::builder()
            .with_protocol(HttpConnectionBuilder::default())
            .with_transport(Counting(DuplexTransport::new(4096, tx.clone()), dials.clone()))
            .with_pool(cfg)
            .without_timeout()
            .build();
        let go = |version: http::Version| {
            let mut c = client.clone();
            tokio::spawn(async move {
                let req = http::Request::get("http://origin.test/").version(version).body(hyperdriver::Body::empty()).unwrap();
                let _ = c.request(req).await;
            })
        };
        let settle = || async {
            for _ in 0..30 {
                tokio::task::yield_now().await;
            }
            tokio::time::sleep(std::time::Duration::from_millis(40)).await;
        };
        let r0 = go(http::Version::HTTP_2);
        settle().await;
        if cancel_owner {
            // the owner is cancelled; with continue_after_preemption its attempt goes on in the background
            r0.abort();
        } else {
            let r1 = go(r1_version);
            settle().await;
            r1.abort();
        }
        settle().await;
        let _r2 = go(http::Version::HTTP_2);
        settle().await;
        vec![format!("dials={}", dials.load(Ordering::SeqCst)), "result=ok".into()]
    })
}

pub fn dispatch(family: &str, kv: &BTreeMap<String, String>) -> Vec<String> {
    match family {
        "pool_bg_attempt" => crate::eyes::pool_bg_attempt(kv),
        "pool_preempted_owner" => crate::eyes::pool_preempted_owner(kv),
        "builder_tls_order" => crate::eyes::builder_tls_order(kv),
        "client_send_version" => crate::eyes::client_send_version(kv),
        "unix_client_path" => crate::eyes::unix_client_path(kv),
        "serving_probe" => crate::eyes::serving_probe(kv),
        "graceful" => crate::eyes::graceful(kv),
        "eyeballs" => crate::eyes::eyeballs(kv),
        "tcp_reset_before_accept" => crate::eyes::tcp_reset_before_accept(kv),
        "pool_extra_dial" => pool_extra_dial(kv),
        "pool_preempt" => pool_preempt(kv),
        "pool_stranded_waiter" => pool_stranded_waiter(kv),
        "tcp_transport" => tcp_transport(kv),
        "urikey" => urikey(kv),
        "pool_closed_handback" => pool_closed_handback(kv),
        "pool_release" => pool_release(kv),
        "pool_h2_followers" => pool_h2_followers(kv),
        "pool_bg_unpolled" => pool_bg_unpolled(kv),
        "pool_busy_handback" => pool_busy_handback(kv),
        "pool_idle_limit" => pool_idle_limit(kv),
        "pool_idle_closed" => pool_idle_closed(kv),
        "pool_idle_expiry" => pool_idle_expiry(kv),
        "pool_timeout_inflight" => pool_timeout_inflight(kv),
        "duplex_cancelled_connect" => duplex_cancelled_connect(kv),
        "sort_preferred" => sort_preferred(kv),
        "binding_pref" => binding_pref(kv),
        "braid_op" => braid_op(kv),
        "sni" => sni(kv),
        "version_into_protocol" => version_into_protocol(kv),
        "tls_connect" => tls_connect(kv),
        _ => vec![format!("input_error=unknown family {family}")],
    }
}
