//! further replay families (added as the obligations that need them are written)
use std::collections::BTreeMap;


fn version(s: &str) -> http::Version {
    match s {
        "0" | "HTTP_09" => http::Version::HTTP_09,
        "1" | "HTTP_10" => http::Version::HTTP_10,
        "2" | "HTTP_11" => http::Version::HTTP_11,
        "3" | "HTTP_2" => http::Version::HTTP_2,
        _ => http::Version::HTTP_3,
    }
}

/// C17: a request with the given http::Version constant issued through the public pooled client
/// service.  `call` resolves the protocol synchronously; nothing is ever connected.
fn version_into_protocol(kv: &BTreeMap<String, String>) -> Vec<String> {
    let v = version(kv.get("version").map(|s| s.as_str()).unwrap_or("2"));
    let mut out = vec![];
    let p = hyperdriver::client::conn::protocol::HttpProtocol::from(v);
    out.push(format!("protocol={p:?}"));
    let uri = match (kv.get("scheme"), kv.get("authority")) {
        (Some(s), Some(a)) => format!("{}://{}{}", s, a, kv.get("pq").cloned().unwrap_or_default()),
        _ => "http://127.0.0.1:1/".to_string(),
    };
    let req = match http::Request::builder().version(v).uri(uri.as_str()).body(hyperdriver::Body::empty()) {
        Ok(r) => r,
        Err(e) => return vec![format!("input_error={e}")],
    };
    let rt = tokio::runtime::Builder::new_current_thread().enable_all().build().unwrap();
    let r = rt.block_on(async move {
        let mut client = hyperdriver::Client::new_tcp_http();
        tokio::time::timeout(std::time::Duration::from_millis(500), client.request(req)).await
    });
    match r {
        Ok(Ok(_)) => out.push("result=ok".into()),
        Ok(Err(e)) => out.push(format!("result=err:{e}")),
        Err(_) => out.push("result=err:timeout".into()),
    }
    out
}

/// C12: an https/wss request through the public TLS transport wrapper over an in-process duplex
/// transport.  The peer never answers the handshake; what matters is whether building the TLS
/// stream for this host panics, and which server name is offered.
#[cfg(feature = "tls")]
fn tls_connect(kv: &BTreeMap<String, String>) -> Vec<String> {
    use hyperdriver::server::conn::AcceptExt as _;
    use std::sync::Arc;
    use tower::ServiceExt as _;
    let uri = format!("{}://{}{}", kv.get("scheme").cloned().unwrap_or("https".into()), kv.get("authority").cloned().unwrap_or_default(), kv.get("pq").cloned().unwrap_or_default());
    let mut b = http::Request::builder().uri(uri.as_str());
    if let Some(h) = kv.get("header.host") {
        b = b.header("host", h.as_str());
    }
    let req = match b.body(()) {
        Ok(r) => r,
        Err(e) => return vec![format!("input_error={e}")],
    };
    let (parts, _) = req.into_parts();
    let tls_configured = kv.get("tls_configured").map(|s| s != "0").unwrap_or(true);
    let rt = tokio::runtime::Builder::new_current_thread().enable_all().build().unwrap();
    let r = rt.block_on(async move {
        let roots = rustls::RootCertStore::empty();
        let config = rustls::ClientConfig::builder_with_provider(Arc::new(rustls::crypto::ring::default_provider()))
            .with_safe_default_protocol_versions()
            .unwrap()
            .with_root_certificates(roots)
            .with_no_client_auth();
        let (client, incoming) = hyperdriver::stream::duplex::pair();
        let plain = hyperdriver::client::conn::transport::duplex::DuplexTransport::new(1024, client);
        // the public optional-TLS transport: TLS configured unless the scenario says otherwise
        let transport = if tls_configured {
            hyperdriver::client::conn::TlsTransport::new(plain).with_tls(Arc::new(config))
        } else {
            hyperdriver::client::conn::TlsTransport::new(plain)
        };
        // the peer records the server name of the ClientHello it receives (if any arrives)
        let seen = Arc::new(std::sync::Mutex::new(None::<String>));
        let seen2 = seen.clone();
        let server = tokio::spawn(async move {
            use tokio::io::AsyncReadExt as _;
            let Ok(mut conn) = incoming.accept().await else { return };
            let mut acceptor = rustls::server::Acceptor::default();
            let mut buf = vec![0u8; 4096];
            for _ in 0..8 {
                let n = match tokio::time::timeout(std::time::Duration::from_millis(120), conn.read(&mut buf)).await {
                    Ok(Ok(n)) if n > 0 => n,
                    _ => break,
                };
                let mut rd = &buf[..n];
                if acceptor.read_tls(&mut rd).is_err() {
                    break;
                }
                match acceptor.accept() {
                    Ok(Some(accepted)) => {
                        *seen2.lock().unwrap() = Some(accepted.client_hello().server_name().unwrap_or("none").to_string());
                        break;
                    }
                    Ok(None) => continue,
                    Err(_) => break,
                }
            }
            tokio::time::sleep(std::time::Duration::from_millis(300)).await;
            drop(conn);
        });
        let out = tokio::time::timeout(std::time::Duration::from_millis(200), transport.oneshot(parts)).await;
        tokio::time::sleep(std::time::Duration::from_millis(30)).await;
        server.abort();
        let sni = seen.lock().unwrap().clone();
        (out, sni)
    });
    let (r, sni) = r;
    let mut lines = match r {
        Ok(Ok(stream)) => {
            use hyperdriver::info::HasTlsConnectionInfo as _;
            vec![format!("stream={}", if stream.tls_info().is_some() { "tls" } else { "plain" }), "result=ok".into()]
        }
        Ok(Err(e)) => vec![format!("result=err:{e}")],
        Err(_) => vec!["stream=tls-handshake-pending".into(), "result=err:timeout (handshake pending)".into()],
    };
    if let Some(s) = sni {
        lines.push(format!("sni={s}"));
    }
    lines
}
#[cfg(not(feature = "tls"))]
fn tls_connect(_kv: &BTreeMap<String, String>) -> Vec<String> {
    vec!["input_error=built without the tls feature".into()]
}

/// C20: one request through the public ValidateSNI layer with a recording inner service.
#[cfg(feature = "sni")]
fn sni(kv: &BTreeMap<String, String>) -> Vec<String> {
    use hyperdriver::info::TlsConnectionInfo;
    use hyperdriver::server::conn::tls::sni::ValidateSNI;
    use std::sync::{Arc, Mutex};
    use tower::{Layer, Service};
    let mut b = http::Request::builder().version(version(kv.get("version").map(|s| s.as_str()).unwrap_or("2")));
    let uri = match kv.get("authority") {
        Some(a) => format!("https://{a}/"),
        None => "/".to_string(),
    };
    b = b.uri(uri.as_str());
    if let Some(h) = kv.get("header.host") {
        b = b.header("host", h.as_str());
    }
    let mut req = match b.body(()) {
        Ok(r) => r,
        Err(e) => return vec![format!("input_error={e}")],
    };
    match kv.get("tls").map(|s| s.as_str()) {
        Some("sni") => {
            let mut info = TlsConnectionInfo::default();
            info.server_name = kv.get("server_name").cloned();
            req.extensions_mut().insert(info);
        }
        Some("no_sni") => {
            req.extensions_mut().insert(TlsConnectionInfo::default());
        }
        _ => {}
    }
    let out = Arc::new(Mutex::new(Vec::<String>::new()));
    let o2 = out.clone();
    let inner = tower::service_fn(move |req: http::Request<()>| {
        let o2 = o2.clone();
        async move {
            let mut o = o2.lock().unwrap();
            o.push("forwarded=1".into());
            if let Some(i) = req.extensions().get::<TlsConnectionInfo>() {
                o.push(format!("validated={}", i.validated_server_name));
            }
            Ok::<_, std::io::Error>(http::Response::new(()))
        }
    });
    let mut svc = ValidateSNI.layer(inner);
    let rt = tokio::runtime::Builder::new_current_thread().enable_all().build().unwrap();
    let r = rt.block_on(async move { svc.call(req).await });
    let mut o = out.lock().unwrap().clone();
    match r {
        Ok(_) => o.push("result=ok".into()),
        Err(e) => o.push(format!("result=err:{e}")),
    }
    o
}
#[cfg(not(feature = "sni"))]
fn sni(_kv: &BTreeMap<String, String>) -> Vec<String> {
    vec!["input_error=built without the sni feature".into()]
}

/// C16: the crate-private address ordering through the `verif-hooks` feature.
/// `families` is a string over {4,6}; the i-th address is 10.0.0.i / ::i so positions are identifiable.
fn sort_preferred(kv: &BTreeMap<String, String>) -> Vec<String> {
    use hyperdriver::client::conn::dns::{verif_hooks, IpVersion};
    use std::net::{IpAddr, Ipv4Addr, Ipv6Addr, SocketAddr};
    let fams = kv.get("families").cloned().unwrap_or_default();
    let addrs: Vec<SocketAddr> = fams
        .chars()
        .enumerate()
        .map(|(i, c)| {
            if c == '6' {
                SocketAddr::new(IpAddr::V6(Ipv6Addr::new(0, 0, 0, 0, 0, 0, 0, i as u16 + 1)), 1000 + i as u16)
            } else {
                SocketAddr::new(IpAddr::V4(Ipv4Addr::new(10, 0, 0, i as u8 + 1)), 1000 + i as u16)
            }
        })
        .collect();
    let prefer = match kv.get("prefer").map(|s| s.as_str()) {
        Some("v4") => Some(IpVersion::V4),
        Some("v6") => Some(IpVersion::V6),
        _ => None,
    };
    let port = kv.get("port").and_then(|p| p.parse::<u16>().ok());
    let out = verif_hooks::order(addrs.clone(), port, prefer);
    let idx: Vec<String> = out
        .iter()
        .map(|a| match addrs.iter().position(|b| b.ip() == a.ip()) {
            Some(i) => i.to_string(),
            None => "?".into(),
        })
        .collect();
    let ports: Vec<String> = out.iter().map(|a| a.port().to_string()).collect();
    vec![format!("order={}", idx.join(",")), format!("ports={}", ports.join(",")), "result=ok".into()]
}

/// C09: `cancelled_first` clients start connecting to a duplex listener and give up (their connect
/// future is dropped after its first poll), then `waiting` well-behaved clients connect; the
/// listener accepts once.  A cancelled connect must not surface as a listener error.
fn duplex_cancelled_connect(kv: &BTreeMap<String, String>) -> Vec<String> {
    use hyperdriver::server::conn::Accept;
    use std::future::Future;
    use std::pin::Pin;
    use std::task::{Context, Poll};
    let cancelled: usize = kv.get("cancelled_first").and_then(|s| s.parse().ok()).unwrap_or(1);
    let waiting: usize = kv.get("waiting").and_then(|s| s.parse().ok()).unwrap_or(0);
    let rt = tokio::runtime::Builder::new_current_thread().enable_all().build().unwrap();
    rt.block_on(async move {
        let (client, mut incoming) = hyperdriver::stream::duplex::pair();
        let w = futures_util::task::noop_waker();
        let mut cx = Context::from_waker(&w);
        for _ in 0..cancelled {
            let mut fut = Box::pin(client.connect(1024));
            let _ = fut.as_mut().poll(&mut cx); // request is now queued at the listener
            drop(fut); // ... and the client gives up
        }
        let mut served = 0;
        let mut tasks = vec![];
        for _ in 0..waiting {
            let c = client.clone();
            tasks.push(tokio::spawn(async move { c.connect(1024).await.is_ok() }));
        }
        tokio::task::yield_now().await;
        tokio::time::sleep(std::time::Duration::from_millis(20)).await;
        let r = std::future::poll_fn(|cx| match Pin::new(&mut incoming).poll_accept(cx) {
            Poll::Pending => Poll::Ready(None),
            Poll::Ready(r) => Poll::Ready(Some(r)),
        })
        .await;
        let mut out = vec![];
        match r {
            None => out.push("accept=pending".to_string()),
            Some(Ok(_s)) => {
                out.push("accept=ok".to_string());
                tokio::time::sleep(std::time::Duration::from_millis(20)).await;
                for t in tasks.iter_mut() {
                    if t.is_finished() {
                        if let Ok(true) = t.await {
                            served += 1;
                        }
                    }
                }
            }
            Some(Err(e)) => {
                out.push("accept=err".to_string());
                out.push(format!("accept_error={e}"));
            }
        }
        out.push(format!("served={served}"));
        out.push("listener_handle_alive=true".into());
        out.push("result=ok".into());
        drop(client);
        out
    })
}

/// C15 (and pool reuse in general): `max_idle + 1` concurrent HTTP/1.1 requests to one origin
/// through the public pooled client over an in-process server, all held in flight together so
/// that each needs its own connection; after they complete and the connections are released, a
/// second identical burst is issued.  Connections the second burst did NOT have to dial were
/// retained idle by the pool.
fn pool_release(kv: &BTreeMap<String, String>) -> Vec<String> {
    use hyperdriver::bridge::io::TokioIo;
    use hyperdriver::client::conn::protocol::auto::HttpConnectionBuilder;
    use hyperdriver::client::conn::transport::duplex::DuplexTransport;
    use std::sync::atomic::{AtomicUsize, Ordering};
    use std::sync::Arc;
    use std::task::{Context, Poll};

    #[derive(Clone)]
    struct Counting(DuplexTransport, Arc<AtomicUsize>);
    impl tower::Service<http::request::Parts> for Counting {
        type Response = <DuplexTransport as tower::Service<http::request::Parts>>::Response;
        type Error = <DuplexTransport as tower::Service<http::request::Parts>>::Error;
        type Future = <DuplexTransport as tower::Service<http::request::Parts>>::Future;
        fn poll_ready(&mut self, cx: &mut Context<'_>) -> Poll<Result<(), Self::Error>> {
            self.0.poll_ready(cx)
        }
        fn call(&mut self, req: http::request::Parts) -> Self::Future {
            self.1.fetch_add(1, Ordering::SeqCst);
            self.0.call(req)
        }
    }

    let max_idle: usize = kv.get("max_idle").and_then(|s| s.parse().ok()).unwrap_or(1);
    // `burst`: number of concurrent requests per burst (default: one more than the idle limit)
    let n: usize = kv.get("burst").and_then(|s| s.parse().ok()).unwrap_or(max_idle + 1);
    let rt = tokio::runtime::Builder::new_current_thread().enable_all().build().unwrap();
    rt.block_on(async move {
        let (tx, incoming) = hyperdriver::stream::duplex::pair();
        let in_flight = Arc::new(AtomicUsize::new(0));
        let gate = Arc::new(tokio::sync::Notify::new());
        let target = Arc::new(AtomicUsize::new(n));
        {
            let in_flight = in_flight.clone();
            let gate = gate.clone();
            let target = target.clone();
            tokio::spawn(async move {
                use hyperdriver::server::conn::Accept;
                let mut incoming = incoming;
                loop {
                    let stream = match std::future::poll_fn(|cx| std::pin::Pin::new(&mut incoming).poll_accept(cx)).await {
                        Ok(s) => s,
                        Err(_) => break,
                    };
                    let in_flight = in_flight.clone();
                    let gate = gate.clone();
                    let target = target.clone();
                    tokio::spawn(async move {
                        let svc = hyper::service::service_fn(move |_req: http::Request<hyper::body::Incoming>| {
                            let in_flight = in_flight.clone();
                            let gate = gate.clone();
                            let target = target.clone();
                            async move {
                                // hold the request until the whole burst is in flight
                                let now = in_flight.fetch_add(1, Ordering::SeqCst) + 1;
                                if now >= target.load(Ordering::SeqCst) {
                                    gate.notify_waiters();
                                } else {
                                    let _ = tokio::time::timeout(std::time::Duration::from_millis(1500), gate.notified()).await;
                                }
                                in_flight.fetch_sub(1, Ordering::SeqCst);
                                Ok::<_, std::convert::Infallible>(http::Response::new(hyperdriver::Body::empty()))
                            }
                        });
                        let _ = hyper::server::conn::http1::Builder::new().serve_connection(TokioIo::new(stream), svc).await;
                    });
                }
            });
        }
        let dials = Arc::new(AtomicUsize::new(0));
        let mut cfg = hyperdriver::client::PoolConfig::default();
        cfg.max_idle_per_host = max_idle;
        cfg.idle_timeout = None;
        cfg.continue_after_preemption = false;
        let client = hyperdriver::client::Client::builder()
            .with_protocol(HttpConnectionBuilder::default())
            .with_transport(Counting(DuplexTransport::new(4096, tx.clone()), dials.clone()))
            .with_pool(cfg)
            .build();
        let mut out = vec![];
        let mut per_burst = vec![];
        for burst in 0..2 {
            let before = dials.load(Ordering::SeqCst);
            let mut hs = vec![];
            for _ in 0..n {
                let mut c = client.clone();
                hs.push(tokio::spawn(async move {
                    let req = http::Request::get("http://origin.test/").body(hyperdriver::Body::empty()).unwrap();
                    c.request(req).await.map(|r| r.status().as_u16())
                }));
            }
            let mut ok = 0;
            for h in hs {
                if let Ok(Ok(200)) = h.await {
                    ok += 1;
                }
            }
            out.push(format!("burst{burst}_ok={ok}"));
            per_burst.push(dials.load(Ordering::SeqCst) - before);
            // let the released connections find their way back into the pool
            for _ in 0..20 {
                tokio::task::yield_now().await;
            }
            tokio::time::sleep(std::time::Duration::from_millis(80)).await;
        }
        out.push(format!("dials_first={}", per_burst[0]));
        out.push(format!("dials_second={}", per_burst[1]));
        out.push(format!("idle_after={}", n.saturating_sub(per_burst[1])));
        out.push("result=ok".into());
        out
    })
}

/// C02 / C05: a non-multiplexed connection that the peer closed while it was held must not be
/// handed to a request that is waiting for a connection of that origin.
///
/// Schedule (public pooled Client, in-process duplex server with controlled accepts):
///   A (HTTP/1.1) is served on connection 1, its response says `connection: close`;
///   C (HTTP/2) starts dialing connection 2 (the listener does not accept it yet) -> origin marked connecting;
///   D (HTTP/1.1) therefore only waits; then A's response is released and connection 1 dies;
///   finally connection 2 is accepted and served as HTTP/2.  C and D must both succeed.
fn pool_closed_handback(_kv: &BTreeMap<String, String>) -> Vec<String> {
    use hyperdriver::bridge::io::TokioIo;
    use hyperdriver::bridge::rt::TokioExecutor;
    use hyperdriver::client::conn::protocol::auto::HttpConnectionBuilder;
    use hyperdriver::client::conn::transport::duplex::DuplexTransport;
    use hyperdriver::server::conn::Accept;
    use std::sync::Arc;
    let rt = tokio::runtime::Builder::new_current_thread().enable_all().build().unwrap();
    rt.block_on(async move {
        let (tx, mut incoming) = hyperdriver::stream::duplex::pair();
        let release_a = Arc::new(tokio::sync::Notify::new());
        let accept_second = Arc::new(tokio::sync::Notify::new());
        {
            let release_a = release_a.clone();
            let accept_second = accept_second.clone();
            tokio::spawn(async move {
                // connection 1: HTTP/1.1, one response with `connection: close`, held until released
                let s1 = std::future::poll_fn(|cx| std::pin::Pin::new(&mut incoming).poll_accept(cx)).await.unwrap();
                let rel = release_a.clone();
                tokio::spawn(async move {
                    let svc = hyper::service::service_fn(move |_req: http::Request<hyper::body::Incoming>| {
                        let rel = rel.clone();
                        async move {
                            rel.notified().await;
                            let mut r = http::Response::new(hyperdriver::Body::empty());
                            r.headers_mut().insert("connection", "close".parse().unwrap());
                            Ok::<_, std::convert::Infallible>(r)
                        }
                    });
                    let _ = hyper::server::conn::http1::Builder::new().serve_connection(TokioIo::new(s1), svc).await;
                });
                // connection 2 (and later ones): accepted only when told, served as HTTP/2
                accept_second.notified().await;
                loop {
                    let s = match std::future::poll_fn(|cx| std::pin::Pin::new(&mut incoming).poll_accept(cx)).await {
                        Ok(s) => s,
                        Err(_) => break,
                    };
                    tokio::spawn(async move {
                        let svc = hyper::service::service_fn(|_req: http::Request<hyper::body::Incoming>| async move {
                            Ok::<_, std::convert::Infallible>(http::Response::new(hyperdriver::Body::empty()))
                        });
                        let _ = hyper::server::conn::http2::Builder::new(TokioExecutor::new()).serve_connection(TokioIo::new(s), svc).await;
                    });
                }
            });
        }
        let mut cfg = hyperdriver::client::PoolConfig::default();
        cfg.idle_timeout = None;
        cfg.continue_after_preemption = false;
        let client = hyperdriver::client::Client::builder()
            .with_protocol(HttpConnectionBuilder::default())
            .with_transport(DuplexTransport::new(4096, tx.clone()))
            .with_pool(cfg)
            .without_timeout()
            .build();
        let go = |version: http::Version| {
            let mut c = client.clone();
            tokio::spawn(async move {
                let req = http::Request::get("http://origin.test/").version(version).body(hyperdriver::Body::empty()).unwrap();
                match tokio::time::timeout(std::time::Duration::from_millis(1500), c.request(req)).await {
                    Ok(Ok(r)) => format!("{}", r.status().as_u16()),
                    Ok(Err(e)) => format!("err:{e}"),
                    Err(_) => "timeout".to_string(),
                }
            })
        };
        let settle = || async {
            for _ in 0..30 {
                tokio::task::yield_now().await;
            }
            tokio::time::sleep(std::time::Duration::from_millis(40)).await;
        };
        let a = go(http::Version::HTTP_11);
        settle().await;
        let c = go(http::Version::HTTP_2);
        settle().await;
        let d = go(http::Version::HTTP_11);
        settle().await;
        release_a.notify_waiters();
        settle().await;
        settle().await;
        accept_second.notify_waiters();
        let (ra, rc, rd) = (a.await.unwrap(), c.await.unwrap(), d.await.unwrap());
        vec![format!("a={ra}"), format!("c={rc}"), format!("d={rd}"), "result=ok".into()]
    })
}

/// C06: the pool key derived from a request (public `UriKey: TryFrom<&request::Parts>` + Display).
fn urikey(kv: &BTreeMap<String, String>) -> Vec<String> {
    let mut parts = http::uri::Parts::default();
    if let Some(s) = kv.get("scheme") {
        parts.scheme = http::uri::Scheme::try_from(s.as_str()).ok();
    }
    if let Some(a) = kv.get("authority") {
        match http::uri::Authority::try_from(a.as_str()) {
            Ok(a) => parts.authority = Some(a),
            Err(e) => return vec![format!("input_error={e}")],
        }
    }
    if let Some(p) = kv.get("pq") {
        parts.path_and_query = http::uri::PathAndQuery::try_from(p.as_str()).ok();
    }
    let uri = match http::Uri::from_parts(parts) {
        Ok(u) => u,
        Err(e) => return vec![format!("input_error={e}")],
    };
    let (p, _) = http::Request::builder().uri(uri).body(()).unwrap().into_parts();
    match hyperdriver::client::pool::UriKey::try_from(&p) {
        Ok(k) => vec![format!("key={k}"), "result=ok".into()],
        Err(e) => vec![format!("result=err:{e}")],
    }
}

/// C17: the public TCP transport asked to connect for a request with the given URI (any form).
/// `call` extracts host and port synchronously; the connect itself is given 300 ms.
fn tcp_transport(kv: &BTreeMap<String, String>) -> Vec<String> {
    use tower::Service;
    let mut parts = http::uri::Parts::default();
    if let Some(s) = kv.get("scheme") {
        parts.scheme = http::uri::Scheme::try_from(s.as_str()).ok();
    }
    if let Some(a) = kv.get("authority") {
        match http::uri::Authority::try_from(a.as_str()) {
            Ok(a) => parts.authority = Some(a),
            Err(e) => return vec![format!("input_error={e}")],
        }
    }
    if let Some(p) = kv.get("pq") {
        parts.path_and_query = http::uri::PathAndQuery::try_from(p.as_str()).ok();
    }
    let uri = match http::Uri::from_parts(parts) {
        Ok(u) => u,
        Err(e) => return vec![format!("input_error={e}")],
    };
    let (p, _) = http::Request::builder().uri(uri).body(()).unwrap().into_parts();
    let rt = tokio::runtime::Builder::new_current_thread().enable_all().build().unwrap();
    let r = rt.block_on(async move {
        let mut t: hyperdriver::client::conn::transport::tcp::TcpTransport = Default::default();
        tokio::time::timeout(std::time::Duration::from_millis(300), t.call(p)).await
    });
    match r {
        Ok(Ok(_)) => vec!["result=ok".into()],
        Ok(Err(e)) => vec![format!("result=err:{e}")],
        Err(_) => vec!["result=err:timeout".into()],
    }
}

/// C03: request R0 (HTTP/2) owns the in-flight connection attempt for an origin, request R1 only
/// waits for it.  R0's attempt is then abandoned (`how=cancel`: R0 is dropped) or fails
/// (`how=dial_err`), or is abandoned and then fails in the background (`how=cancel+dial_err`).
/// With `r1_when=after` R1 is instead a fresh probe issued afterwards.  R1 must still resolve - with a connection or an error - once the listener
/// serves connections again; a timeout means it is stranded.
fn pool_stranded_waiter(kv: &BTreeMap<String, String>) -> Vec<String> {
    use hyperdriver::bridge::io::TokioIo;
    use hyperdriver::bridge::rt::TokioExecutor;
    use hyperdriver::client::conn::protocol::auto::HttpConnectionBuilder;
    use hyperdriver::client::conn::transport::duplex::DuplexTransport;
    use hyperdriver::server::conn::Accept;
    use std::sync::atomic::{AtomicUsize, Ordering};
    use std::sync::Arc;
    use std::task::{Context, Poll};

    /// first connect waits for `fail` and then errors (when armed); later connects go through
    #[derive(Clone)]
    struct Flaky {
        inner: DuplexTransport,
        calls: Arc<AtomicUsize>,
        armed: bool,
        fail: Arc<tokio::sync::Notify>,
    }
    impl tower::Service<http::request::Parts> for Flaky {
        type Response = <DuplexTransport as tower::Service<http::request::Parts>>::Response;
        type Error = std::io::Error;
        type Future = std::pin::Pin<Box<dyn std::future::Future<Output = Result<Self::Response, Self::Error>> + Send>>;
        fn poll_ready(&mut self, cx: &mut Context<'_>) -> Poll<Result<(), Self::Error>> {
            self.inner.poll_ready(cx)
        }
        fn call(&mut self, req: http::request::Parts) -> Self::Future {
            let n = self.calls.fetch_add(1, Ordering::SeqCst);
            if self.armed && n == 0 {
                let fail = self.fail.clone();
                return Box::pin(async move {
                    fail.notified().await;
                    Err(std::io::Error::new(std::io::ErrorKind::ConnectionRefused, "injected dial failure"))
                });
            }
            let f = self.inner.call(req);
            Box::pin(f)
        }
    }

    let kv = kv.clone();
    let cont = kv.get("cont").map(|s| s == "1").unwrap_or(false);
    let how = kv.get("how").cloned().unwrap_or("cancel".into());
    let r1_version = if kv.get("r1").map(|s| s == "h2").unwrap_or(false) { http::Version::HTTP_2 } else { http::Version::HTTP_11 };
    let rt = tokio::runtime::Builder::new_current_thread().enable_all().build().unwrap();
    rt.block_on(async move {
        let (tx, mut incoming) = hyperdriver::stream::duplex::pair();
        let start_accepting = Arc::new(tokio::sync::Notify::new());
        {
            let start = start_accepting.clone();
            tokio::spawn(async move {
                start.notified().await;
                loop {
                    let s = match std::future::poll_fn(|cx| std::pin::Pin::new(&mut incoming).poll_accept(cx)).await {
                        Ok(s) => s,
                        Err(_) => break,
                    };
                    tokio::spawn(async move {
                        let svc = hyper::service::service_fn(|_req: http::Request<hyper::body::Incoming>| async move {
                            Ok::<_, std::convert::Infallible>(http::Response::new(hyperdriver::Body::empty()))
                        });
                        // serve whichever protocol the client speaks
                        let b = hyperdriver::server::conn::auto::Builder::new(TokioExecutor::new());
                        let _ = b.serve_connection_with_upgrades(TokioIo::new(s), svc).await;
                    });
                }
            });
        }
        let fail = Arc::new(tokio::sync::Notify::new());
        let mut cfg = hyperdriver::client::PoolConfig::default();
        cfg.idle_timeout = None;
        cfg.continue_after_preemption = cont;
        let client = hyperdriver::client::Client::builder()
            .with_protocol(HttpConnectionBuilder::default())
            .with_transport(Flaky { inner: DuplexTransport::new(4096, tx.clone()), calls: Arc::new(AtomicUsize::new(0)), armed: how.contains("dial_err"), fail: fail.clone() })
            .with_pool(cfg)
            .without_timeout()
            .build();
        let go = |version: http::Version| {
            let mut c = client.clone();
            tokio::spawn(async move {
                let req = http::Request::get("http://origin.test/").version(version).body(hyperdriver::Body::empty()).unwrap();
                match c.request(req).await {
                    Ok(r) => format!("{}", r.status().as_u16()),
                    Err(e) => format!("err:{e}"),
                }
            })
        };
        let settle = || async {
            for _ in 0..30 {
                tokio::task::yield_now().await;
            }
            tokio::time::sleep(std::time::Duration::from_millis(40)).await;
        };
        // `r1_when=after`: R1 is a fresh probe issued only after R0's attempt was abandoned / failed
        let r1_after = kv.get("r1_when").map(|s| s == "after").unwrap_or(false);
        let r0_version = if kv.get("r0").map(|s| s == "h1").unwrap_or(false) { http::Version::HTTP_11 } else { http::Version::HTTP_2 };
        // `cancel_who=r1`: the request that is cancelled is the one waiting on R0's attempt; the
        // reported request is then a fresh probe issued at the end
        let cancel_r1 = kv.get("cancel_who").map(|s| s == "r1").unwrap_or(false);
        let r0 = go(r0_version);
        settle().await;
        let mut r1_early = if r1_after && !cancel_r1 { None } else { Some(go(r1_version)) };
        settle().await;
        if how.contains("cancel") {
            if cancel_r1 {
                if let Some(h) = r1_early.take() {
                    h.abort();
                }
            } else {
                r0.abort();
            }
            settle().await;
        }
        if how.contains("dial_err") {
            // with continue_after_preemption a cancelled attempt lives on in the background: it fails now
            fail.notify_waiters();
        }
        settle().await;
        let mut r1 = match r1_early.take() {
            Some(h) => h,
            None => go(r1_version),
        };
        settle().await;
        start_accepting.notify_waiters();
        let out1 = match tokio::time::timeout(std::time::Duration::from_millis(1500), &mut r1).await {
            Ok(Ok(s)) => s,
            Ok(Err(e)) => format!("join:{e}"),
            Err(_) => "timeout".to_string(),
        };
        vec![format!("r1={out1}"), "result=ok".into()]
    })
}

/// C14: request R1 is dialing its own connection (the listener never accepts it) and has been
/// polled; then request R0's connection to the same origin is released.  R1 must be served on
/// that connection instead of waiting for its own dial.
fn pool_preempt(kv: &BTreeMap<String, String>) -> Vec<String> {
    use hyperdriver::bridge::io::TokioIo;
    use hyperdriver::client::conn::protocol::auto::HttpConnectionBuilder;
    use hyperdriver::client::conn::transport::duplex::DuplexTransport;
    use hyperdriver::server::conn::Accept;
    use std::sync::Arc;
    let cont = kv.get("cont").map(|s| s == "1").unwrap_or(false);
    let rt = tokio::runtime::Builder::new_current_thread().enable_all().build().unwrap();
    let kv = kv.clone();
    rt.block_on(async move {
        let (tx, mut incoming) = hyperdriver::stream::duplex::pair();
        let release = Arc::new(tokio::sync::Notify::new());
        {
            let release = release.clone();
            tokio::spawn(async move {
                // only ONE connection is ever accepted; it is served with keep-alive
                let s1 = std::future::poll_fn(|cx| std::pin::Pin::new(&mut incoming).poll_accept(cx)).await.unwrap();
                let first = Arc::new(std::sync::atomic::AtomicBool::new(true));
                let svc = hyper::service::service_fn(move |_req: http::Request<hyper::body::Incoming>| {
                    let release = release.clone();
                    let first = first.clone();
                    async move {
                        if first.swap(false, std::sync::atomic::Ordering::SeqCst) {
                            release.notified().await;
                        }
                        Ok::<_, std::convert::Infallible>(http::Response::new(hyperdriver::Body::empty()))
                    }
                });
                let _ = hyper::server::conn::http1::Builder::new().serve_connection(TokioIo::new(s1), svc).await;
                // keep the listener alive (but idle) so that the second dial stays pending
                std::future::pending::<()>().await;
                drop(incoming);
            });
        }
        let mut cfg = hyperdriver::client::PoolConfig::default();
        cfg.idle_timeout = None;
        cfg.continue_after_preemption = cont;
        let client = hyperdriver::client::Client::builder()
            .with_protocol(HttpConnectionBuilder::default())
            .with_transport(DuplexTransport::new(4096, tx.clone()))
            .with_pool(cfg)
            .without_timeout()
            .build();
        let go = || {
            let mut c = client.clone();
            tokio::spawn(async move {
                let req = http::Request::get("http://origin.test/").version(http::Version::HTTP_11).body(hyperdriver::Body::empty()).unwrap();
                match c.request(req).await {
                    Ok(r) => format!("{}", r.status().as_u16()),
                    Err(e) => format!("err:{e}"),
                }
            })
        };
        let settle = || async {
            for _ in 0..30 {
                tokio::task::yield_now().await;
            }
            tokio::time::sleep(std::time::Duration::from_millis(40)).await;
        };
        let r0 = go();
        settle().await;
        let mut r1 = go(); // dials connection 2, which is never accepted; gets polled while waiting
        settle().await;
        if let Some(abandon) = kv.get("abandon").cloned() {
            // another request (HTTP/2 or HTTP/1.1) to the same origin starts its own attempt (never accepted either)
            // and is cancelled again: that must not cost R1 its place in the waiting queue
            let mut c = client.clone();
            let r2 = tokio::spawn(async move {
                let version = if abandon == "h2" { http::Version::HTTP_2 } else { http::Version::HTTP_11 };
                let req = http::Request::get("http://origin.test/").version(version).body(hyperdriver::Body::empty()).unwrap();
                let _ = c.request(req).await;
            });
            settle().await;
            r2.abort();
            let _ = r2.await;
            settle().await;
        }
        release.notify_waiters();
        let out0 = r0.await.unwrap();
        let out1 = match tokio::time::timeout(std::time::Duration::from_millis(1500), &mut r1).await {
            Ok(Ok(s)) => s,
            Ok(Err(e)) => format!("join:{e}"),
            Err(_) => "timeout".to_string(),
        };
        let mut lines = vec![format!("r0={out0}"), format!("r1={out1}")];
        if kv.get("chain").map(|s| s == "1").unwrap_or(false) {
            // R1 has released the connection it was handed; a further request must find it in the pool
            // (its own dial would never be accepted either)
            settle().await;
            let mut r2 = go();
            let out2 = match tokio::time::timeout(std::time::Duration::from_millis(1500), &mut r2).await {
                Ok(Ok(s)) => s,
                Ok(Err(e)) => format!("join:{e}"),
                Err(_) => "timeout".to_string(),
            };
            lines.push(format!("r2={out2}"));
        }
        lines.push("result=ok".into());
        lines
    })
}

/// C04: while request R0's HTTP/2 connection attempt is in flight (the listener does not accept
/// it yet), a second request R1 waits for it and is then cancelled; a third HTTP/2 request R2 must
/// still wait for R0's attempt rather than dial.  Reports the number of transport dials.
fn pool_extra_dial(kv: &BTreeMap<String, String>) -> Vec<String> {
    use hyperdriver::client::conn::protocol::auto::HttpConnectionBuilder;
    use hyperdriver::client::conn::transport::duplex::DuplexTransport;
    use std::sync::atomic::{AtomicUsize, Ordering};
    use std::sync::Arc;
    use std::task::{Context, Poll};
    #[derive(Clone)]
    struct Counting(DuplexTransport, Arc<AtomicUsize>);
    impl tower::Service<http::request::Parts> for Counting {
        type Response = <DuplexTransport as tower::Service<http::request::Parts>>::Response;
        type Error = <DuplexTransport as tower::Service<http::request::Parts>>::Error;
        type Future = <DuplexTransport as tower::Service<http::request::Parts>>::Future;
        fn poll_ready(&mut self, cx: &mut Context<'_>) -> Poll<Result<(), Self::Error>> {
            self.0.poll_ready(cx)
        }
        fn call(&mut self, req: http::request::Parts) -> Self::Future {
            self.1.fetch_add(1, Ordering::SeqCst);
            self.0.call(req)
        }
    }
    let cont = kv.get("cont").map(|s| s == "1").unwrap_or(true);
    let r1_version = if kv.get("r1").map(|s| s == "h1").unwrap_or(false) { http::Version::HTTP_11 } else { http::Version::HTTP_2 };
    let cancel_owner = kv.get("cancel").map(|s| s == "owner").unwrap_or(false);
    let rt = tokio::runtime::Builder::new_current_thread().enable_all().build().unwrap();
    rt.block_on(async move {
        // the listener exists but never accepts: every dial stays pending
        let (tx, _incoming) = hyperdriver::stream::duplex::pair();
        let dials = Arc::new(AtomicUsize::new(0));
        let mut cfg = hyperdriver::client::PoolConfig::default();
        cfg.idle_timeout = None;
        cfg.continue_after_preemption = cont;
        let client = hyperdriver::client::Client::builder()
            .with_protocol(HttpConnectionBuilder::default())
            .with_transport(Counting(DuplexTransport::new(4096, tx.clone()), dials.clone()))
            .with_pool(cfg)
            .without_timeout()
            .build();
        let go = |version: http::Version| {
            let mut c = client.clone();
            tokio::spawn(async move {
                let req = http::Request::get("http://origin.test/").version(version).body(hyperdriver::Body::empty()).unwrap();
                let _ = c.request(req).await;
            })
        };
        let settle = || async {
            for _ in 0..30 {
                tokio::task::yield_now().await;
            }
            tokio::time::sleep(std::time::Duration::from_millis(40)).await;
        };
        let r0 = go(http::Version::HTTP_2);
        settle().await;
        if cancel_owner {
            // the owner is cancelled; with continue_after_preemption its attempt goes on in the background
            r0.abort();
        } else {
            let r1 = go(r1_version);
            settle().await;
            r1.abort();
        }
        settle().await;
        let _r2 = go(http::Version::HTTP_2);
        settle().await;
        vec![format!("dials={}", dials.load(Ordering::SeqCst)), "result=ok".into()]
    })
}

pub fn dispatch(family: &str, kv: &BTreeMap<String, String>) -> Vec<String> {
    match family {
        "builder_tls_order" => crate::eyes::builder_tls_order(kv),
        "client_send_version" => crate::eyes::client_send_version(kv),
        "unix_client_path" => crate::eyes::unix_client_path(kv),
        "serving_probe" => crate::eyes::serving_probe(kv),
        "graceful" => crate::eyes::graceful(kv),
        "eyeballs" => crate::eyes::eyeballs(kv),
        "tcp_reset_before_accept" => crate::eyes::tcp_reset_before_accept(kv),
        "pool_extra_dial" => pool_extra_dial(kv),
        "pool_preempt" => pool_preempt(kv),
        "pool_stranded_waiter" => pool_stranded_waiter(kv),
        "tcp_transport" => tcp_transport(kv),
        "urikey" => urikey(kv),
        "pool_closed_handback" => pool_closed_handback(kv),
        "pool_release" => pool_release(kv),
        "duplex_cancelled_connect" => duplex_cancelled_connect(kv),
        "sort_preferred" => sort_preferred(kv),
        "sni" => sni(kv),
        "version_into_protocol" => version_into_protocol(kv),
        "tls_connect" => tls_connect(kv),
        _ => vec![format!("input_error=unknown family {family}")],
    }
}
