//! Native replay driver: executes one scenario against hyperdriver's PUBLIC API and prints what
//! happened as `key=value` lines.  Used (a) to confirm solver counterexamples before they are
//! reported and (b) to validate mirsym's model table on concrete inputs.
//!
//! stdin: `key=value` lines; `family=` selects the driver.
use std::collections::BTreeMap;
use std::future::Future;
use std::pin::Pin;
use std::sync::{Arc, Mutex};
use std::task::{Context, Poll};

use hyperdriver::client::conn::Connection;
use hyperdriver::service::{ExecuteRequest, Http1ChecksLayer, Http2ChecksLayer, SetHostHeaderLayer};
use tower::{Layer, Service};

type Req = http::Request<hyperdriver::Body>;

#[derive(Debug)]
struct Never;
impl std::fmt::Display for Never {
    fn fmt(&self, f: &mut std::fmt::Formatter<'_>) -> std::fmt::Result {
        f.write_str("never")
    }
}
impl std::error::Error for Never {}

/// mock connection: only reports a version
#[derive(Debug)]
struct Conn(http::Version);
impl Connection<hyperdriver::Body> for Conn {
    type ResBody = hyperdriver::Body;
    type Error = Never;
    type Future = std::future::Ready<Result<http::Response<hyperdriver::Body>, Never>>;
    fn send_request(&mut self, _r: Req) -> Self::Future {
        std::future::ready(Ok(http::Response::new(hyperdriver::Body::empty())))
    }
    fn poll_ready(&mut self, _cx: &mut Context<'_>) -> Poll<Result<(), Never>> {
        Poll::Ready(Ok(()))
    }
    fn version(&self) -> http::Version {
        self.0
    }
}

fn version(s: &str) -> http::Version {
    match s {
        "0" | "HTTP_09" => http::Version::HTTP_09,
        "1" | "HTTP_10" => http::Version::HTTP_10,
        "2" | "HTTP_11" => http::Version::HTTP_11,
        "3" | "HTTP_2" => http::Version::HTTP_2,
        _ => http::Version::HTTP_3,
    }
}

fn describe(out: &mut Vec<String>, req: &Req) {
    out.push(format!("method={}", req.method()));
    out.push(format!("uri={}", req.uri()));
    out.push(format!("version={:?}", req.version()));
    let mut names: Vec<_> = req.headers().keys().map(|k| k.as_str().to_string()).collect();
    names.sort();
    names.dedup();
    for n in names {
        for v in req.headers().get_all(&n) {
            out.push(format!("header.{}={}", n, String::from_utf8_lossy(v.as_bytes())));
        }
    }
}

#[derive(Clone)]
struct Record(Arc<Mutex<Vec<String>>>);
impl Service<ExecuteRequest<Conn, hyperdriver::Body>> for Record {
    type Response = ();
    type Error = hyperdriver::client::Error;
    type Future = std::future::Ready<Result<(), hyperdriver::client::Error>>;
    fn poll_ready(&mut self, _cx: &mut Context<'_>) -> Poll<Result<(), Self::Error>> {
        Poll::Ready(Ok(()))
    }
    fn call(&mut self, req: ExecuteRequest<Conn, hyperdriver::Body>) -> Self::Future {
        let (_c, r) = req.into_parts();
        let mut o = self.0.lock().unwrap();
        o.push("forwarded=1".into());
        describe(&mut o, &r);
        std::future::ready(Ok(()))
    }
}
impl Service<Req> for Record {
    type Response = ();
    type Error = hyperdriver::client::Error;
    type Future = std::future::Ready<Result<(), hyperdriver::client::Error>>;
    fn poll_ready(&mut self, _cx: &mut Context<'_>) -> Poll<Result<(), Self::Error>> {
        Poll::Ready(Ok(()))
    }
    fn call(&mut self, r: Req) -> Self::Future {
        let mut o = self.0.lock().unwrap();
        o.push("forwarded=1".into());
        describe(&mut o, &r);
        std::future::ready(Ok(()))
    }
}

fn block_on<F: Future>(f: F) -> F::Output {
    let mut f = Box::pin(f);
    let w = futures_util::task::noop_waker();
    let mut cx = Context::from_waker(&w);
    loop {
        if let Poll::Ready(v) = Pin::new(&mut f).poll(&mut cx) {
            return v;
        }
    }
}

fn build_request(kv: &BTreeMap<String, String>) -> Result<Req, String> {
    let mut b = http::Request::builder();
    if let Some(m) = kv.get("method") {
        b = b.method(m.as_str());
    }
    b = b.version(version(kv.get("version").map(|s| s.as_str()).unwrap_or("2")));
    // the URI is assembled from parts so that forms the parser normalises stay as given
    let mut parts = http::uri::Parts::default();
    if let Some(s) = kv.get("scheme") {
        parts.scheme = Some(http::uri::Scheme::try_from(s.as_str()).map_err(|e| e.to_string())?);
    }
    if let Some(a) = kv.get("authority") {
        parts.authority = Some(http::uri::Authority::try_from(a.as_str()).map_err(|e| e.to_string())?);
    }
    if let Some(p) = kv.get("pq") {
        parts.path_and_query = Some(http::uri::PathAndQuery::try_from(p.as_str()).map_err(|e| e.to_string())?);
    }
    let uri = http::Uri::from_parts(parts).map_err(|e| e.to_string())?;
    b = b.uri(uri);
    for (k, v) in kv {
        if let Some(h) = k.strip_prefix("header.") {
            b = b.header(h, v.as_str());
        }
    }
    b.body(hyperdriver::Body::empty()).map_err(|e| e.to_string())
}

fn layers(kv: &BTreeMap<String, String>) -> Vec<String> {
    let out = Arc::new(Mutex::new(Vec::new()));
    let req = match build_request(kv) {
        Ok(r) => r,
        Err(e) => return vec![format!("input_error={e}")],
    };
    let rec = Record(out.clone());
    let which = kv.get("layer").map(|s| s.as_str()).unwrap_or("host_request");
    let cv = version(kv.get("conn_version").map(|s| s.as_str()).unwrap_or("2"));
    let res: Result<(), String> = match which {
        "host_request" => {
            let mut svc = SetHostHeaderLayer::new().layer(rec);
            block_on(Service::<Req>::call(&mut svc, req)).map_err(|e| e.to_string())
        }
        "host_execute" => {
            let mut svc = SetHostHeaderLayer::new().layer(rec);
            block_on(Service::<ExecuteRequest<Conn, hyperdriver::Body>>::call(&mut svc, ExecuteRequest::new(Conn(cv), req))).map_err(|e| e.to_string())
        }
        "http1" => {
            let mut svc = Http1ChecksLayer::<Conn, hyperdriver::Body>::new().layer(rec);
            block_on(svc.call(ExecuteRequest::new(Conn(cv), req))).map_err(|e| e.to_string())
        }
        "http2" => {
            let mut svc = Http2ChecksLayer::<Conn, hyperdriver::Body>::new().layer(rec);
            block_on(svc.call(ExecuteRequest::new(Conn(cv), req))).map_err(|e| e.to_string())
        }
        other => Err(format!("unknown layer {other}")),
    };
    let mut o = out.lock().unwrap().clone();
    match res {
        Ok(()) => o.push("result=ok".into()),
        Err(e) => o.push(format!("result=err:{e}")),
    }
    o
}

mod eyes;
mod more;

fn main() {
    let mut input = String::new();
    std::io::Read::read_to_string(&mut std::io::stdin(), &mut input).unwrap();
    let mut kv = BTreeMap::new();
    for l in input.lines() {
        if let Some((k, v)) = l.split_once('=') {
            kv.insert(k.trim().to_string(), v.to_string());
        }
    }
    let fam = kv.get("family").cloned().unwrap_or_default();
    std::panic::set_hook(Box::new(|_| {}));
    let r = std::panic::catch_unwind(|| match fam.as_str() {
        "layers" => layers(&kv),
        other => more::dispatch(other, &kv),
    });
    match r {
        Ok(lines) => {
            for l in lines {
                println!("{l}");
            }
        }
        Err(p) => {
            let msg = p.downcast_ref::<String>().cloned().or_else(|| p.downcast_ref::<&str>().map(|s| s.to_string())).unwrap_or_default();
            println!("result=panic:{}", msg.replace('\n', " "));
        }
    }
}
