//! Native (non-symbolic) replays of solver counterexamples through hyperdriver's public API.
