//! Replay of the C08 counterexample (ReadVersion step f=0,k=8 then the rest) through the public
//! auto-detecting server: an HTTP/2 preface that arrives in two reads must be served as HTTP/2.
use hyperdriver::Body;
use tokio::io::{AsyncReadExt, AsyncWriteExt};

type BoxError = Box<dyn std::error::Error + Send + Sync + 'static>;

async fn echo(_req: http::Request<Body>) -> Result<http::Response<Body>, BoxError> {
    Ok(http::Response::new(Body::from("ok")))
}

const PREFACE: &[u8] = b"PRI * HTTP/2.0\r\n\r\nSM\r\n\r\n";

async fn first_response_bytes(split: usize) -> Vec<u8> {
    let (client, incoming) = hyperdriver::stream::duplex::pair();
    let server = hyperdriver::server::Server::builder()
        .with_incoming(incoming)
        .with_auto_http()
        .with_shared_service(tower::service_fn(echo))
        .with_tokio();
    let handle = tokio::spawn(std::future::IntoFuture::into_future(server));
    let mut stream = client.connect(1024).await.unwrap();
    stream.write_all(&PREFACE[..split]).await.unwrap();
    stream.flush().await.unwrap();
    // let the server task observe the partial preface
    for _ in 0..20 {
        tokio::task::yield_now().await;
    }
    tokio::time::sleep(std::time::Duration::from_millis(20)).await;
    stream.write_all(&PREFACE[split..]).await.unwrap();
    // empty SETTINGS frame
    stream.write_all(&[0, 0, 0, 4, 0, 0, 0, 0, 0]).await.unwrap();
    stream.flush().await.unwrap();
    let mut buf = vec![0u8; 9];
    tokio::time::timeout(std::time::Duration::from_secs(5), stream.read_exact(&mut buf)).await.expect("no answer").unwrap();
    handle.abort();
    buf
}

fn assert_h2(buf: &[u8], split: usize) {
    assert!(!buf.starts_with(b"HTTP/1"), "split={split}: served as HTTP/1: {:?}", String::from_utf8_lossy(buf));
    assert_eq!(buf[3], 4, "split={split}: expected an HTTP/2 SETTINGS frame, got {buf:?}");
}

#[tokio::test]
async fn preface_in_one_write() {
    let b = first_response_bytes(24).await;
    assert_h2(&b, 24);
}

#[tokio::test]
async fn preface_split_across_two_reads() {
    for split in [1usize, 8, 23] {
        let b = first_response_bytes(split).await;
        assert_h2(&b, split);
    }
}
