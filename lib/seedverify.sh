#!/bin/bash
# usage: seedverify.sh <PROP> <worktree> <demo cargo args...>
# Confirms a seeded change: demo fails with the patch, passes without; the pinned suite passes with it.
# Then applies it to /repo, runs the property's quick check, undoes it, and files everything under /verif/seeded/<PROP>/.
set -u
PID=$1; WT=$2; shift 2
DEMO=("$@")
OUT=${SEED_OUT:-/verif/seeded/$PID}
mkdir -p $OUT
cp $WT/SEED/patch.diff $WT/SEED/demo.diff $OUT/ 2>/dev/null
cd $WT
# state: patch applied?
if git apply -R --check SEED/patch.diff 2>/dev/null; then :; else git apply SEED/patch.diff; fi
echo "== demo WITH patch (must fail)"
cargo test --offline "${DEMO[@]}" > $OUT/demo_with_patch.log 2>&1; W=$?
tail -5 $OUT/demo_with_patch.log
echo "== suite WITH patch (must pass apart from the demo)"
cargo test --workspace --no-fail-fast --offline > $OUT/suite_with_patch.log 2>&1
TOTAL_F=$(grep -E "^test result" $OUT/suite_with_patch.log | awk '{f+=$6} END {print f+0}')
DEMO_F=$(grep -E "^test result" $OUT/demo_with_patch.log | awk '{f+=$6} END {print f+0}')
SUITE_FAILS=$((TOTAL_F-DEMO_F)); if [ "$SUITE_FAILS" -lt 0 ]; then SUITE_FAILS=0; fi
grep -E "^test result" $OUT/suite_with_patch.log | awk '{p+=$4; f+=$6} END {print "suite passed="p" failed="f}'
echo "non-demo failures in suite: $SUITE_FAILS"
git apply -R SEED/patch.diff
echo "== demo WITHOUT patch (must pass)"
cargo test --offline "${DEMO[@]}" > $OUT/demo_without_patch.log 2>&1; WO=$?
tail -3 $OUT/demo_without_patch.log
git apply SEED/patch.diff
echo "demo_with_patch_exit=$W demo_without_patch_exit=$WO"
# the demonstration may have edited Cargo.toml (test registration, dev-dependencies): the check must see
# the library change only
git -C $WT checkout -- Cargo.toml 2>/dev/null
# run the check against the worktree (patch applied) - /repo itself is not touched
( cd /repo && git apply --check $OUT/patch.diff ) || { echo "PATCH DOES NOT APPLY TO /repo"; exit 3; }
cd /verif && VERIF_REPO=$WT ./check $PID --tier quick > $OUT/check_quick.log 2>&1; RC=$?
tail -6 $OUT/check_quick.log
echo "check_exit=$RC"
python3 - <<PY
import json
m=json.load(open("$WT/SEED/meta.json"))
m.update({"property":"$PID","confirmed_by_me":{"demo_with_patch_exit":$W,"demo_without_patch_exit":$WO,"non_demo_suite_failures_with_patch":$SUITE_FAILS,"demo_cmd":"cargo test --offline ${DEMO[*]}"},"check":{"cmd":"./check $PID --tier quick","exit":$RC,"detected": $RC==1}})
json.dump(m,open("$OUT/meta.json","w"),indent=1)
PY
