"""Run Kani proof harness instances against a scratch copy of /repo and collect results."""
import json
import os
import re
import resource
import subprocess
import time
from dataclasses import dataclass, field

from scratch import MODULES, Scratch, VERIF

STUBS = {
    "rs": [("std::hash::RandomState::new", "crate::__verif::rs_new")],
    "lock": [
        ("parking_lot::RawMutex::lock_slow", "crate::__verif::lock_slow_stub"),
        ("parking_lot::RawMutex::unlock_slow", "crate::__verif::unlock_slow_stub"),
    ],
    "tracing": [
        ("tracing::dispatcher::get_default", "crate::__verif::get_default_stub"),
        ("tracing::callsite::DefaultCallsite::register", "crate::__verif::register_stub"),
    ],
    "clock": [("std::time::Instant::now", "crate::__verif::instant_now_stub")],
    "format": [("alloc::fmt::format", "crate::__verif::format_stub")],
}

STUB_DOC = {
    "rs": "std::hash::RandomState::new -> fixed SipHash keys",
    "lock": "parking_lot::RawMutex::{lock_slow,unlock_slow} -> assume(false) (single-threaded, never contended)",
    "tracing": "tracing::dispatcher::get_default / DefaultCallsite::register -> no subscriber installed",
    "clock": "std::time::Instant::now -> harness-controlled (secs,nanos) virtual clock",
    "format": "alloc::fmt::format -> empty String (only log/error messages are built with it)",
}


# harness modules that use items of other harness modules
DEPS = {"auto": ["rewind"], "pool": ["key"], "idle": ["key", "pool"], "checkout": ["key", "pool"], "pool_service": ["key", "pool"]}


@dataclass
class H:
    name: str
    module: str
    call: str
    unwind: int
    stubs: list = field(default_factory=list)
    tier: str = "quick"  # "quick": run in both tiers; "thorough": thorough tier only
    desc: dict = field(default_factory=dict)
    family: str = ""
    features: str = ""  # cargo features ("" = default)
    expect: str = "pass"  # "fail": vacuity twin, must be reported FAILED
    nontrivial: bool = True
    funcs: list = field(default_factory=list)  # real functions this instance symbolically executes

    def wrapper(self):
        lines = ["#[kani::proof]", f"#[kani::unwind({self.unwind})]"]
        for s in self.stubs:
            for orig, repl in STUBS[s]:
                lines.append(f"#[kani::stub({orig}, {repl})]")
        lines.append(f"fn {self.name}() {{ super::__verif::{self.call}; }}")
        return "\n".join(lines) + "\n"


def modpath(key):
    rel = MODULES[key]
    p = rel[len("src/"):-len(".rs")]
    parts = [x for x in p.split("/") if x not in ("mod", "lib")]
    return "::".join(parts)


@dataclass
class Result:
    h: H
    status: str  # "pass" | "fail" | "inconclusive"
    reason: str = ""
    failed_checks: list = field(default_factory=list)
    props_total: int = 0
    props_passed: int = 0
    covers_sat: int = 0
    symex_s: float = 0.0
    solver_s: float = 0.0
    wall_s: float = 0.0
    vccs: int = 0


def _limit():
    lim = int(os.environ.get("VERIF_MEM_GB", "14")) * (1 << 30)
    resource.setrlimit(resource.RLIMIT_AS, (lim, lim))


def kani_env():
    env = dict(os.environ)
    env["CARGO_NET_OFFLINE"] = "true"
    env.pop("RUSTUP_TOOLCHAIN", None)
    env.pop("RUSTFLAGS", None)
    return env


SWAP_LOOP = "_RINvNvNtCs8xvirJzNMvV_4core3ptr25swap_nonoverlapping_bytes26swap_nonoverlapping_chunksKj8_ECscrgiVT8UQOZ_6object.0"


def run_group(scratch: Scratch, hs, features, timeout_s, jobs, log, cbmc_args=None, kani_args=None):
    """One `cargo kani` invocation over every harness wrapper currently in the scratch tree that
    belongs to `hs`. Returns {harness name: Result}."""
    out_json = scratch.path(f"kani-{abs(hash(features)) % 10000}.json")
    cmd = ["cargo", "kani", "-Z", "stubbing", "-Z", "unstable-options", "--output-format", "terse",
           "-j", str(jobs), "--export-json", out_json, "--harness-timeout", f"{timeout_s}s", "--exact"]
    if features:
        cmd += ["--features", features]
    for h in hs:
        mp = modpath(h.module)
        full = (mp + "::" if mp else "") + "__verif_gen::" + h.name
        cmd += ["--harness", full]
    if kani_args:
        cmd += list(kani_args)
    if cbmc_args:
        cmd += ["--cbmc-args"] + list(cbmc_args)
    t0 = time.time()
    with open(log, "a") as lf:
        lf.write("$ " + " ".join(cmd[:16]) + f" ... ({len(hs)} harnesses)\n")
        lf.flush()
        p = subprocess.run(cmd, cwd=scratch.dir, env=kani_env(), stdout=lf, stderr=subprocess.STDOUT,
                           preexec_fn=_limit)
    wall = time.time() - t0
    results = {}
    if not os.path.exists(out_json):
        errs = subprocess.run(["grep", "-n", "-A", "14", "^error", log], capture_output=True, text=True).stdout[:4000]
        tail = errs or subprocess.run(["tail", "-n", "60", log], capture_output=True, text=True).stdout
        for h in hs:
            results[h.name] = Result(h, "inconclusive", "cargo kani produced no result file (build error?)\n" + tail)
        return results, wall
    d = json.load(open(out_json))
    by_id = {}
    for r in d.get("verification_results", {}).get("results", []):
        by_id[r["harness_id"].split("::")[-1]] = r
    pd = {x["harness_id"].split("::")[-1]: x["property_details"] for x in d.get("property_details", [])}
    cb = {x["harness_id"].split("::")[-1]: (x.get("cbmc_stats") or {}) for x in d.get("cbmc", [])}
    ed = {x["harness_id"].split("::")[-1]: x for x in d.get("error_details", [])}
    for h in hs:
        r = by_id.get(h.name)
        if r is None:
            results[h.name] = Result(h, "inconclusive", "harness missing from Kani's result file")
            continue
        props = pd.get(h.name) or {}
        stats = cb.get(h.name) or {}
        res = Result(h, "inconclusive")
        res.props_total = props.get("total_properties") or 0
        res.props_passed = props.get("passed") or 0
        res.covers_sat = props.get("satisfied") or 0
        res.symex_s = stats.get("runtime_symex_s", 0.0) or 0.0
        res.solver_s = stats.get("runtime_decision_procedure_s", 0.0) or 0.0
        res.vccs = stats.get("vccs_generated", 0) or 0
        res.wall_s = (r.get("duration_ms") or 0) / 1000.0
        failed = [c for c in r.get("checks", []) if c.get("status") not in ("Success", "Satisfied", "Unreachable", "Unsatisfiable", "Uncoverable", "Covered", "Uncovered")]
        res.failed_checks = [
            {"description": c.get("description", ""), "status": c.get("status"), "category": c.get("category", ""),
             "function": c.get("function", ""), "location": "%s:%s" % (c.get("location", {}).get("file", "?"), c.get("location", {}).get("line", "?"))}
            for c in failed
        ]
        st = r.get("status")
        err = ed.get(h.name, {})
        undetermined = (props.get("undetermined") or 0) + (props.get("solver_error") or 0)
        real_fail = [c for c in res.failed_checks if c["status"] == "Failure"]
        bound_fail = [c for c in real_fail if c["category"] in ("unwind", "recursion") or "unwinding assertion" in c["description"]]
        if st == "Success" and not real_fail and not undetermined:
            if res.covers_sat < 1:
                res.status = "inconclusive"
                res.reason = "vacuous: no reachability witness (kani::cover!) satisfied"
            else:
                res.status = "pass"
        elif st == "Failure" and bound_fail:
            res.status = "inconclusive"
            res.reason = "unwinding/recursion bound too small for this instance (machinery, not a violation): " + bound_fail[0]["location"]
        elif st == "Failure" and real_fail and err.get("exit_status", "properties_failed") == "properties_failed":
            res.status = "fail"
        else:
            res.status = "inconclusive"
            res.reason = f"kani status={st} exit_status={err.get('exit_status')} undetermined={undetermined} (timeout / out of memory / solver error)"
        if h.expect == "fail":
            # vacuity twin: its final assert(false) MUST be violated
            if res.status == "fail":
                res.status = "pass"
            elif res.status == "pass":
                res.status = "inconclusive"
                res.reason = "vacuity twin passed: the harness does not reach its assertion"
        results[h.name] = res
    return results, wall


def build_scratch(tag, hs, facade=True, keep=False):
    s = Scratch(tag, facade=facade, keep=keep)
    s.populate()
    s.add_module("root")
    # modules whose accessors other harness modules use
    for h in hs:
        for dep in DEPS.get(h.module, []):
            s.add_module(dep)
        s.add_wrapper(h.module, h.wrapper())
    s.finish()
    return s


def playback(scratch: Scratch, h: H, log):
    """Re-run one failing harness with concrete playback; return (test_source, test_names)."""
    mp = modpath(h.module)
    full = (mp + "::" if mp else "") + "__verif_gen::" + h.name
    cmd = ["cargo", "kani", "-Z", "stubbing", "-Z", "unstable-options", "-Z", "concrete-playback",
           "--concrete-playback=print", "--output-format", "terse", "--exact", "--harness", full]
    if h.features:
        cmd += ["--features", h.features]
    p = subprocess.run(cmd, cwd=scratch.dir, env=kani_env(), capture_output=True, text=True, preexec_fn=_limit)
    with open(log, "a") as lf:
        lf.write("$ " + " ".join(cmd) + "\n" + p.stdout[-20000:] + p.stderr[-5000:])
    blocks = re.findall(r"```\n(/// Test generated.*?)```", p.stdout, flags=re.S)
    tests = []
    for b in blocks:
        m = re.search(r"/// Check for `([a-z_]+)`: (.*)\n", b)
        n = re.search(r"fn (kani_concrete_playback_\w+)\(", b)
        if m and n and m.group(1) != "cover":
            tests.append((n.group(1), m.group(2), b))
    return tests


def native_replay(scratch: Scratch, h: H, tests, log):
    """Append the generated unit tests to the generated wrapper module and execute them natively
    (`cargo kani playback`). Returns list of (test name, reproduced: bool)."""
    gen = scratch.path("gen", h.module + "_gen.rs")
    with open(gen, "a") as fh:
        for _n, _d, b in tests:
            fh.write("\n" + b + "\n")
    out = []
    for n, _d, _b in tests:
        cmd = ["cargo", "kani", "playback", "-Z", "concrete-playback", "--lib"]
        if h.features:
            cmd += ["--features", h.features]
        cmd += ["--", n, "--exact" if False else "--nocapture"]
        p = subprocess.run(cmd, cwd=scratch.dir, env=kani_env(), capture_output=True, text=True)
        with open(log, "a") as lf:
            lf.write("$ " + " ".join(cmd) + "\n" + p.stdout[-6000:] + p.stderr[-6000:])
        ran = re.search(r"test result: (ok|FAILED)\. (\d+) passed; (\d+) failed", p.stdout)
        if not ran:
            out.append((n, None))
        else:
            out.append((n, int(ran.group(3)) > 0))
    return out
