"""Scratch copy of /repo's working tree with verification modules appended under cfg(kani).

The functions under test are byte-for-byte /repo's: the only edits made to the copy are
 * one `#[cfg(kani)] #[path = ...] mod __verif...;` line appended per instrumented module file,
 * (optionally) the tokio dependency renamed to the facade crate in the scratch Cargo.toml,
 * `[lints.rust] unsafe_code = "deny"` relaxed for cfg(kani) harness modules via #![allow] in them.
Nothing is written to /repo.
"""
import os
import re
import shutil
import subprocess
import tempfile

REPO = os.environ.get("VERIF_REPO", "/repo")
VERIF = os.path.dirname(os.path.dirname(os.path.abspath(__file__)))

# module key -> source file (relative to repo) that gets the `mod __verif_<key>` line
MODULES = {
    "root": "src/lib.rs",
    "auto": "src/server/conn/auto.rs",
    "rewind": "src/rewind.rs",
    "bridge_io": "src/bridge/io.rs",
    "timeout": "src/service/timeout.rs",
    "pool": "src/client/pool/mod.rs",
    "idle": "src/client/pool/idle.rs",
    "key": "src/client/pool/key.rs",
    "checkout": "src/client/pool/checkout.rs",
    "dns": "src/client/conn/dns.rs",
    "protocol": "src/client/conn/protocol/mod.rs",
    "protocol_auto": "src/client/conn/protocol/auto.rs",
    "connection": "src/client/conn/connection.rs",
    "http": "src/service/http.rs",
    "host": "src/service/host.rs",
    "server": "src/server/mod.rs",
    "drivers": "src/server/conn/drivers.rs",
    "duplex": "src/stream/duplex.rs",
    "sni": "src/server/conn/tls/sni.rs",
    "transport": "src/client/conn/transport/mod.rs",
    "transport_tls": "src/client/conn/transport/tls.rs",
    "transport_tcp": "src/client/conn/transport/tcp.rs",
    "stream_tls": "src/client/conn/stream/tls.rs",
    "client_stream": "src/client/conn/stream/mod.rs",
    "server_stream": "src/server/conn/stream.rs",
    "core_stream": "src/stream/core.rs",
    "braid_tls": "src/stream/tls.rs",
    "pool_service": "src/client/pool/service.rs",
    "happy": "src/happy_eyeballs.rs",
}


def source_digest(repo=REPO):
    """sha256 over the files the checks compile (src/, Cargo.toml, Cargo.lock)."""
    import hashlib
    h = hashlib.sha256()
    paths = []
    for root, _d, files in os.walk(os.path.join(repo, "src")):
        for f in files:
            paths.append(os.path.join(root, f))
    paths += [os.path.join(repo, "Cargo.toml"), os.path.join(repo, "Cargo.lock")]
    for p in sorted(paths):
        h.update(p.encode())
        with open(p, "rb") as fh:
            h.update(fh.read())
    return h.hexdigest()


class Scratch:
    def __init__(self, tag, facade=True, keep=False):
        self.dir = tempfile.mkdtemp(prefix=f"hdverif-{tag}-")
        self.keep = keep
        self.facade = facade
        self.gen = {}  # module key -> list of generated wrapper source strings
        self.modules = set()

    def path(self, *p):
        return os.path.join(self.dir, *p)

    def populate(self):
        for item in ("src", "Cargo.toml", "Cargo.lock", "clippy.toml"):
            s = os.path.join(REPO, item)
            d = self.path(item)
            if os.path.isdir(s):
                shutil.copytree(s, d)
            elif os.path.exists(s):
                shutil.copy2(s, d)
        # cargo config: offline
        os.makedirs(self.path(".cargo"), exist_ok=True)
        with open(self.path(".cargo", "config.toml"), "w") as fh:
            fh.write("[net]\noffline = true\n")
        toml = open(self.path("Cargo.toml")).read()
        # integration tests / examples are not copied: drop their target sections
        toml = re.sub(r'(?ms)^\[\[(test|example)\]\]\n(?:[^\[\n][^\n]*\n|\n)*', '', toml)
        if self.facade:
            new, n = re.subn(
                r'^tokio = \{ version = "1", features = \["full"\] \}\s*$',
                'tokio = { path = "%s/kani/tokio-facade", package = "verif-tokio-facade", features = ["full"] }'
                % VERIF,
                toml,
                flags=re.M,
            )
            if n != 1:
                raise RuntimeError("could not rewrite tokio dependency in scratch Cargo.toml")
            toml = new
        # harness modules use unsafe (noop wakers, uninit buffers); the crate denies it by lint
        toml = toml.replace('unsafe_code = "deny"', 'unsafe_code = "allow"')
        toml = toml.replace("check-cfg = ['cfg(tarpaulin)']", "check-cfg = ['cfg(tarpaulin)', 'cfg(kani)']")
        with open(self.path("Cargo.toml"), "w") as fh:
            fh.write(toml)

    def add_module(self, key):
        """Append the harness module declaration for module `key`."""
        if key in self.modules:
            return
        self.modules.add(key)
        rel = MODULES[key]
        harness = os.path.join(VERIF, "kani", f"{key}.rs")
        if not os.path.exists(harness):
            raise RuntimeError(f"no harness file {harness}")
        vis = "pub(crate) " if key in ("root", "pool", "rewind", "protocol", "key") else ""
        with open(self.path(rel), "a") as fh:
            fh.write(f'\n#[cfg(kani)]\n#[path = "{harness}"]\n{vis}mod __verif;\n')
            fh.write(f'#[cfg(kani)]\n#[path = "{self.path("gen", key + "_gen.rs")}"]\nmod __verif_gen;\n')
        self.gen.setdefault(key, [])

    def add_wrapper(self, key, src):
        self.add_module(key)
        self.gen[key].append(src)

    def finish(self):
        os.makedirs(self.path("gen"), exist_ok=True)
        for key, srcs in self.gen.items():
            with open(self.path("gen", key + "_gen.rs"), "w") as fh:
                fh.write("#![allow(unused_imports, dead_code, unsafe_code, missing_docs)]\n")
                fh.write("\n".join(srcs))
                fh.write("\n")

    def cleanup(self):
        if not self.keep:
            shutil.rmtree(self.dir, ignore_errors=True)
