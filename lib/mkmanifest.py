#!/usr/bin/env python3
"""Regenerate MANIFEST.json from the property modules (keeps it valid as checks are added)."""
import importlib
import json
import os
import sys

HERE = os.path.dirname(os.path.dirname(os.path.abspath(__file__)))
sys.path.insert(0, os.path.join(HERE, "lib"))
sys.path.insert(0, os.path.join(HERE, "props"))
import manifest_data as md  # noqa: E402

checks = []
for pid, c in sorted(md.CLAIMS.items()):
    checks.append({
        "property_id": pid,
        "quick_cmd": f"./check {pid} --tier quick",
        "thorough_cmd": f"./check {pid} --tier thorough",
        "evidence_file": f"/verif/evidence/{pid}.json",
        "replay_cmd_template": f"./check {pid} --replay {{path}}",
        "engine": c["engine"],
        "level_claimed": {"category": "model_checking", "text": c["text"], "design_ref": c["design_ref"]},
        "level_note": c["note"],
        "technique": c["technique"],
    })
m = {
    "version": 1,
    "setup_cmd": "./setup.sh",
    "hooks": {
        "guard": "cargo feature `verif-hooks` (source hook in /repo); cfg(kani) (harness modules appended to scratch copies only)",
        "enable": "native replay builds /repo with `--features verif-hooks` (native/Cargo.toml); Kani checks copy /repo's working tree to a scratch directory and appends `#[cfg(kani)] #[path = \"/verif/kani/<m>.rs\"] mod __verif;` lines to the copy (cargo-kani sets cfg(kani)); the MIR engine reads rustc's MIR of the unmodified sources",
        "baseline_off_cmd": "cd /repo && cargo test --workspace --no-fail-fast --offline",
        "source_commits": ["0b78bbd", "6c5d37b"],
        "add_only": True,
    },
    "engines": md.ENGINES,
    "checks": checks,
    "notes": md.NOTES,
    "not_applicable": [{"property_id": k, "reason": v} for k, v in sorted(md.NOT_APPLICABLE.items())],
}
json.dump(m, open(os.path.join(HERE, "MANIFEST.json"), "w"), indent=1)
print("MANIFEST.json:", len(checks), "checks,", len(md.NOT_APPLICABLE), "not applicable")
