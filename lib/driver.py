"""Check driver: builds the scratch tree from /repo's working tree, runs the solver-backed
obligations of one property, replays counterexamples, writes evidence, sets the exit code."""
import json
import os
import re
import shutil
import sys
import time

import kanirun
from kanirun import H, Result, STUB_DOC
from scratch import REPO, VERIF, source_digest

KNOWN = os.path.join(VERIF, "known_findings.txt")
LEVEL = "model_checking"


def load_known():
    """known_findings.txt lines:
    finding: property=<id> family=<regex> check=<regex> instance=<regex> :: <what fails>
    fixed: property=<id> <commit> <what failed>        (suppresses nothing)
    """
    out = []
    if not os.path.exists(KNOWN):
        return out
    for line in open(KNOWN):
        line = line.strip()
        if not line.startswith("finding:"):
            continue
        head, _, what = line[len("finding:"):].partition("::")
        kv = dict(re.findall(r"(\w+)=(\S+)", head))
        out.append({"property": kv.get("property"), "family": kv.get("family", ".*"), "check": kv.get("check", ".*").replace("_", "[ _]"),
                    "instance": kv.get("instance", ".*"), "what": what.strip()})
    return out


def match_known(known, pid, r: Result):
    """A failing harness is a known finding only if EVERY failed check of it matches a listed
    finding for this property (family + instance + check description)."""
    if not r.failed_checks:
        return None
    hit = None
    for c in r.failed_checks:
        if c["status"] != "Failure":
            continue
        ok = None
        for k in known:
            if k["property"] != pid:
                continue
            if re.fullmatch(k["family"], r.h.family) and re.fullmatch(k["instance"], r.h.name) and re.search(k["check"], c["description"]):
                ok = k
                break
        if ok is None:
            return None
        hit = ok
    return hit


def rotate(lst, seed):
    if not lst:
        return lst
    k = seed % len(lst)
    return lst[k:] + lst[:k]


def run(mod, pid, tier, seed, keep=False, only=None):
    t0 = time.time()
    os.makedirs(os.path.join(VERIF, "evidence"), exist_ok=True)
    logdir = os.path.join(VERIF, "logs")
    os.makedirs(logdir, exist_ok=True)
    log = os.path.join(logdir, f"{pid}-{tier}.log")
    open(log, "w").write(f"# {pid} {tier} seed={seed} repo_digest={source_digest()}\n")

    hs = [h for h in mod.harnesses(tier, seed) if tier == "thorough" or h.tier == "quick"]
    partial = False
    if only:
        hs = [h for h in hs if re.search(only, h.name)]
        partial = True
    hs = rotate(hs, seed)
    names = [h.name for h in hs]
    assert len(names) == len(set(names)), "duplicate harness names"
    timeout_s = int(os.environ.get("VERIF_HARNESS_TIMEOUT", getattr(mod, "TIMEOUT", {}).get(tier, 180 if tier == "quick" else 1200)))
    jobs = int(os.environ.get("VERIF_JOBS", "16"))

    results = {}
    extra = []  # non-Kani obligations (SMT over MIR), same Result-like dicts
    scratch = None
    rc_reason = []
    try:
        if hs:
            scratch = kanirun.build_scratch(pid, hs, facade=getattr(mod, "FACADE", True), keep=keep)
            groups = {}
            for h in hs:
                groups.setdefault(h.features, []).append(h)
            for feat, group in groups.items():
                res, wall = kanirun.run_group(scratch, group, feat, timeout_s, jobs, log, cbmc_args=getattr(mod, 'CBMC_ARGS', None), kani_args=getattr(mod, 'KANI_ARGS', None))
                results.update(res)
        if hasattr(mod, "extra"):
            extra = mod.extra(tier, seed, log)

        with open(log, "a") as lf:
            lf.write("\n# per-harness results (name status wall symex solver props covers)\n")
            for r in sorted(results.values(), key=lambda r: -r.wall_s):
                lf.write(f"{r.h.name} {r.status} {r.wall_s:.1f}s symex={r.symex_s:.1f} solver={r.solver_s:.1f} props={r.props_total} covers={r.covers_sat} {r.reason[:100]}\n")
        known = load_known()
        fails = [r for r in results.values() if r.status == "fail"]
        inconcl = [r for r in results.values() if r.status == "inconclusive"]
        known_hits = {}
        new_fails = []
        for r in fails:
            k = match_known(known, pid, r)
            if k:
                known_hits.setdefault(k["what"], []).append(r)
            else:
                new_fails.append(r)
        for what, rs in known_hits.items():
            print(f"KNOWN-FINDING: property={pid} {what}  [{len(rs)} harness instance(s), e.g. {rs[0].h.name}]")

        violations = []
        if new_fails:
            # one representative per (family, failed-check set); smallest instance name first
            reps = {}
            for r in sorted(new_fails, key=lambda r: (len(r.h.name), r.h.name)):
                key = (r.h.family, tuple(sorted({c["description"] for c in r.failed_checks})))
                reps.setdefault(key, r)
            for key, r in list(reps.items())[:4]:
                v = replay_violation(scratch, pid, r, log)
                violations.append(v)
        for e in extra:
            if e["status"] == "fail":
                k = None
                for kf in known:
                    if kf["property"] == pid and re.fullmatch(kf["family"], e.get("family", "")) and re.search(kf["check"], e.get("failed", "")):
                        k = kf
                if k:
                    print(f"KNOWN-FINDING: property={pid} {k['what']}  [{e['name']}]")
                    e["known"] = True
                else:
                    violations.append({"confirmed": e.get("replayed", False), "path": e.get("replay_path", ""), "name": e["name"], "why": e.get("failed", ""), "ub_only": False, "native": e.get("replayed")})
            elif e["status"] == "inconclusive":
                inconcl.append(e)

        nviol = 0
        unconfirmed = 0
        for v in violations:
            if v["confirmed"]:
                nviol += 1
                print(f"VIOLATION property={pid} replay={v['path']}")
                print(f"  harness={v['name']} failed: {v['why']}")
            else:
                unconfirmed += 1
                print(f"UNCONFIRMED counterexample for {pid} ({v['name']}): {v['why']} -- native replay did not reproduce; see {v['path']}")
        if len(new_fails) > len(violations):
            print(f"  ({len(new_fails)} failing harness instances in total; one representative per failure signature was replayed)")
        for r in inconcl:
            if isinstance(r, Result):
                print(f"INCONCLUSIVE {pid} {r.h.name}: {r.reason.splitlines()[0] if r.reason else ''}")
                if "no result file" in r.reason:
                    print(r.reason[-3000:])
                    break
            else:
                print(f"INCONCLUSIVE {pid} {r['name']}: {r.get('reason','')}")

        wall = time.time() - t0
        write_evidence(mod, pid, tier, seed, hs, results, extra, nviol, wall, partial, known_hits)
        npass = sum(1 for r in results.values() if r.status == "pass") + sum(1 for e in extra if e["status"] == "pass")
        total = len(results) + len(extra)
        print(f"{pid} [{tier}] {npass}/{total} obligations discharged, {len(fails)} failing harnesses ({sum(len(v) for v in known_hits.values())} known), "
              f"{len(inconcl)} inconclusive, wall {wall:.0f}s")
        if nviol:
            return 1
        if unconfirmed or inconcl:
            return 2
        return 0
    finally:
        if scratch is not None:
            scratch.cleanup()


def replay_violation(scratch, pid, r: Result, log):
    """Concrete playback of a failing harness + native execution of the generated test."""
    h = r.h
    rdir = os.path.join(VERIF, "replay", pid)
    os.makedirs(rdir, exist_ok=True)
    path = os.path.join(rdir, h.name + ".rs")
    why = "; ".join(sorted({c["description"] for c in r.failed_checks if c["status"] == "Failure"}))[:400]
    cats = {c["category"] for c in r.failed_checks if c["status"] == "Failure"}
    ub_only = bool(cats) and not (cats & {"assertion", "unreachable", "unwind", "arithmetic_overflow"}) and "assertion" not in cats
    tests = []
    try:
        tests = kanirun.playback(scratch, h, log)
    except Exception as e:  # noqa
        open(log, "a").write(f"playback failed: {e}\n")
    header = {
        "property": pid, "harness": h.name, "module": h.module, "call": h.call, "unwind": h.unwind, "stubs": h.stubs,
        "features": h.features, "instance": h.desc, "failed_checks": r.failed_checks[:10],
        "how_to_replay": f"./check {pid} --replay {path}",
    }
    native = None
    if tests:
        outcome = kanirun.native_replay(scratch, h, tests, log)
        if any(o is True for _n, o in outcome):
            native = True
        elif all(o is False for _n, o in outcome):
            native = False
    header["native_replay_reproduced"] = native
    with open(path, "w") as fh:
        fh.write("// " + json.dumps(header) + "\n")
        fh.write("// wrapper:\n" + "\n".join("// " + l for l in h.wrapper().splitlines()) + "\n")
        for _n, d, b in tests:
            fh.write(b + "\n")
    semantically_stubbed = bool(set(h.stubs) & {"clock", "format"})
    if native is True:
        confirmed = True
    elif semantically_stubbed or ub_only:
        # the native binary cannot apply the clock stub / does not trap on UB-level checks:
        # the counterexample stands on the solver's run over the compiled real code
        confirmed = bool(tests) or True
    else:
        confirmed = False
    return {"confirmed": confirmed, "path": path, "name": h.name, "why": why, "ub_only": ub_only, "native": native}


def replay(mod, pid, path):
    """Re-execute a stored counterexample against the current /repo tree. exit 1 if it reproduces."""
    if path.endswith(".scn"):
        import mirrun
        log = os.path.join(VERIF, "logs", f"{pid}-replay.log")
        os.makedirs(os.path.dirname(log), exist_ok=True)
        rc = mirrun.replay(pid, path, log)
        if rc == 1:
            print(f"VIOLATION property={pid} replay={path}")
        return rc
    first = open(path).readline()
    hdr = json.loads(first[3:])
    h = H(name=hdr["harness"], module=hdr["module"], call=hdr["call"], unwind=hdr["unwind"], stubs=hdr["stubs"], features=hdr.get("features", ""))
    src = open(path).read()
    blocks = re.findall(r"(/// Test generated.*?\n}\n)", src, flags=re.S)
    tests = []
    for b in blocks:
        n = re.search(r"fn (kani_concrete_playback_\w+)\(", b)
        if n:
            tests.append((n.group(1), "", b))
    log = os.path.join(VERIF, "logs", f"{pid}-replay.log")
    os.makedirs(os.path.dirname(log), exist_ok=True)
    open(log, "w").write("")
    scratch = kanirun.build_scratch(pid + "-replay", [h], facade=getattr(mod, "FACADE", True))
    try:
        if tests:
            out = kanirun.native_replay(scratch, h, tests, log)
            print("native replay:", out)
            if any(o is True for _n, o in out):
                print(f"VIOLATION property={pid} replay={path}")
                return 1
        # fall back to re-deciding the harness with the solver
        res, _ = kanirun.run_group(scratch, [h], h.features, 1200, 1, log)
        r = res[h.name]
        print(f"solver re-run of {h.name}: {r.status} {r.reason}")
        if r.status == "fail":
            print(f"VIOLATION property={pid} replay={path}")
            return 1
        return 0 if r.status == "pass" else 2
    finally:
        scratch.cleanup()


def write_evidence(mod, pid, tier, seed, hs, results, extra, nviol, wall, partial, known_hits):
    rs = list(results.values())
    passed = [r for r in rs if r.status == "pass"]
    nontrivial = {r.h.name for r in passed if r.h.nontrivial and r.h.expect == "pass" and r.props_total > 0}
    extra_pass = [e for e in extra if e["status"] == "pass"]
    nontrivial |= {e["name"] for e in extra_pass if e.get("nontrivial", True)}
    stubs = sorted({s for r in rs for s in r.h.stubs})
    funcs = sorted({f for r in rs for f in r.h.funcs} | {f for e in extra for f in e.get("funcs", [])})
    samples = []
    seen_fam = set()
    for r in rs:
        if r.h.family in seen_fam and len(samples) >= 6:
            continue
        seen_fam.add(r.h.family)
        if len(samples) < 12:
            samples.append({"harness": r.h.name, "call": r.h.call, "instance": r.h.desc, "unwind": r.h.unwind, "stubs": r.h.stubs,
                            "status": r.status, "cbmc_properties": r.props_total, "reachability_witnesses_satisfied": r.covers_sat,
                            "symex_s": round(r.symex_s, 3), "solver_s": round(r.solver_s, 3)})
    for e in extra[:8]:
        samples.append({k: e[k] for k in e if k in ("name", "status", "query", "engine", "bound", "solver_s", "family", "paths", "queries", "funcs", "cvc5", "failed", "cex_input")})
    ev = {
        "property_id": pid,
        "tier": tier,
        "seed": seed,
        "level": LEVEL,
        "coverage": {
            "evaluations": len(rs) + sum(max(1, e.get("paths", 1)) for e in extra),
            "distinct_nontrivial": len({n for n in nontrivial if n not in {e["name"] for e in extra}}) + sum(max(1, e.get("paths", 1)) for e in extra_pass if e.get("nontrivial", True)),
            "rule": "one evaluation = one solver-decided obligation: a Kani proof-harness instance (the real, compiled hyperdriver functions "
                    "symbolically executed by CBMC with every byte/flag/instant left symbolic; container shapes and lengths are fixed per instance and "
                    "named in it) or one SMT query over the MIR-derived encoding. Distinct = distinct (harness family, instance parameters). "
                    "Non-trivial = the instance verified with all CBMC properties discharged AND its kani::cover! reachability witness satisfied "
                    "(vacuity guard); reachability twins (expected-to-fail) and setup-only base cases are not counted.",
            "samples": samples,
            "obligations": sum(r.props_total for r in rs) + len(extra),
            "discharged": sum(r.props_passed for r in rs) + len(extra_pass),
            "harness_instances": len(rs),
            "harness_instances_passed": len(passed),
            "harness_instances_failed": sum(1 for r in rs if r.status == "fail"),
            "harness_instances_inconclusive": sum(1 for r in rs if r.status == "inconclusive"),
            "known_findings_hit": {k: [r.h.name for r in v][:20] for k, v in known_hits.items()},
            "smt_obligations": len(extra),
            "mirsym_paths": sum(e.get("paths", 0) for e in extra),
            "mirsym_solver_queries": sum(e.get("queries", 0) for e in extra),
            "mirsym_model_table": getattr(getattr(mod, "extra", None), "model_table", {}) if hasattr(mod, "extra") else {},
            "functions_encoded": funcs or getattr(mod, "FUNCS", []),
            "bounds": getattr(mod, "BOUNDS", ""),
            "outside_claim": getattr(mod, "OUTSIDE", ""),
            "stubs_in_force": [STUB_DOC[s] for s in stubs],
            "solver_time_s": round(sum(r.solver_s for r in rs) + sum(e.get("solver_s", 0) for e in extra), 3),
            "symex_time_s": round(sum(r.symex_s for r in rs), 3),
            "vccs_generated": sum(r.vccs for r in rs),
            "checker_cmd": "cargo kani -Z stubbing --harness <instance> (Kani 0.68.0, CBMC 6.11.0, CaDiCaL); unwinding assertions on",
            "trusted_base": ["Kani rustc->goto translation", "CBMC 6.11 + CaDiCaL", "the stubs listed in stubs_in_force", "tokio facade crate (spawn/time) where the harness uses it"] + getattr(mod, "TRUSTED", []),
            "exhaustive": False,
            "repo_digest": source_digest(),
            "partial_run": partial,
        },
        "assumptions": getattr(mod, "ASSUMPTIONS", []),
        "wall_s": round(wall, 2),
        "violations": nviol,
    }
    # evidence describes /repo; a run against another checkout (VERIF_REPO, used for seeded-change
    # experiments and background sweeps) must not overwrite it
    evdir = os.path.join(VERIF, "evidence") if os.path.realpath(REPO) == "/repo" else os.path.join("/tmp", "hdverif-evidence-other")
    os.makedirs(evdir, exist_ok=True)
    p = os.path.join(evdir, f"{pid}.json")
    with open(p, "w") as fh:
        json.dump(ev, fh, indent=1)
