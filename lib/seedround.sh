#!/bin/bash
# usage: seedround.sh <PROP> <worktree> <suffix> <demo cargo args...>
# For a worktree a sub-agent left with its change applied and an untracked demonstration: splits the
# library change (src/) from the demonstration, writes SEED/, and hands over to seedverify.sh.
set -u
PID=$1; WT=$2; SUF=$3; shift 3
cd $WT || exit 3
mkdir -p SEED
git diff -- src > SEED/patch.diff
git add -N tests Cargo.toml 2>/dev/null
git diff -- tests Cargo.toml > SEED/demo.diff
[ -f SEED/meta.json ] || echo '{}' > SEED/meta.json
SEED_OUT=/verif/seeded/${PID}_$SUF bash /verif/lib/seedverify.sh $PID $WT "$@"
