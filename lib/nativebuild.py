"""Build the native replay driver (/verif/native, path dependency on /repo's working tree)."""
import os
import shutil
import subprocess

from scratch import REPO, VERIF

TARGET = os.environ.get("VERIF_NATIVE_TARGET", "/tmp/verif-native-target")


def ensure_replay(log=None, features=""):
    """-> path of the replay binary, or None when it cannot be built (then counterexamples stay unconfirmed)"""
    nat = os.path.join(VERIF, "native")
    shutil.copy2(os.path.join(REPO, "Cargo.lock"), os.path.join(nat, "Cargo.lock"))
    env = dict(os.environ)
    env["CARGO_NET_OFFLINE"] = "true"
    env["CARGO_TARGET_DIR"] = TARGET
    env.pop("RUSTFLAGS", None)
    cmd = ["cargo", "build", "--offline", "--bin", "replay"]
    if features:
        cmd += ["--features", features]
    p = subprocess.run(cmd, cwd=nat, env=env, capture_output=True, text=True)
    if log:
        with open(log, "a") as lf:
            lf.write("$ " + " ".join(cmd) + "\n" + p.stderr[-3000:] + "\n")
    exe = os.path.join(TARGET, "debug", "replay")
    if p.returncode != 0 or not os.path.exists(exe):
        return None
    return exe
