"""Build the native replay driver (/verif/native, path dependency on /repo's working tree)."""
import os
import shutil
import subprocess

from scratch import REPO, VERIF

TARGET = os.environ.get("VERIF_NATIVE_TARGET", "/tmp/verif-native-target")


def ensure_replay(log=None, features=""):
    """-> path of the replay binary, or None when it cannot be built (then counterexamples stay unconfirmed)"""
    nat = os.path.join(VERIF, "native")
    target = TARGET
    if os.path.realpath(REPO) != "/repo":
        # VERIF_REPO points at another checkout (background sweeps on a snapshot): build a private copy of
        # the driver whose path dependency is that checkout, with its own target directory
        import hashlib
        tag = hashlib.sha1(os.path.realpath(REPO).encode()).hexdigest()[:10]
        alt = f"/tmp/verif-native-src-{tag}"
        shutil.rmtree(alt, ignore_errors=True)
        shutil.copytree(nat, alt, ignore=shutil.ignore_patterns("target"))
        toml = open(os.path.join(alt, "Cargo.toml")).read().replace('path = "/repo"', f'path = "{os.path.realpath(REPO)}"')
        open(os.path.join(alt, "Cargo.toml"), "w").write(toml)
        nat, target = alt, f"{TARGET}-{tag}"
    shutil.copy2(os.path.join(REPO, "Cargo.lock"), os.path.join(nat, "Cargo.lock"))
    env = dict(os.environ)
    env["CARGO_NET_OFFLINE"] = "true"
    env["CARGO_TARGET_DIR"] = target
    env.pop("RUSTFLAGS", None)
    cmd = ["cargo", "build", "--offline", "--bin", "replay"]
    if features:
        cmd += ["--features", features]
    p = subprocess.run(cmd, cwd=nat, env=env, capture_output=True, text=True)
    if log:
        with open(log, "a") as lf:
            lf.write("$ " + " ".join(cmd) + "\n" + p.stderr[-3000:] + "\n")
    exe = os.path.join(target, "debug", "replay")
    if p.returncode != 0 or not os.path.exists(exe):
        return None
    return exe
