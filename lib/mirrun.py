"""Build rustc's MIR dump from /repo's current working tree and run the mirsym obligations of one property."""
import json
import os
import re
import shutil
import subprocess
import tempfile
import time

from scratch import REPO, VERIF, source_digest

CACHE = os.environ.get("VERIF_MIR_CACHE", "/tmp/hdverif-mircache")


def build_mir(log):
    """-> (mir file, src root). The dump is regenerated from /repo's current sources; an optional
    cache keyed by the content digest of src/+Cargo.toml+Cargo.lock only avoids re-running rustc
    on byte-identical input."""
    dig = source_digest()
    d = os.path.join(CACHE, dig)
    mir = os.path.join(d, "mir.txt")
    if os.path.exists(mir) and os.path.getsize(mir) > 100000:
        return mir, os.path.join(d, "repo", "src")
    tmp = tempfile.mkdtemp(prefix="hdverif-mir-")
    try:
        r = os.path.join(tmp, "repo")
        os.makedirs(r)
        shutil.copytree(os.path.join(REPO, "src"), os.path.join(r, "src"))
        for f in ("Cargo.toml", "Cargo.lock"):
            shutil.copy2(os.path.join(REPO, f), os.path.join(r, f))
        toml = open(os.path.join(r, "Cargo.toml")).read()
        toml = re.sub(r'(?ms)^\[\[(test|example)\]\]\n(?:[^\[\n][^\n]*\n|\n)*', '', toml)
        open(os.path.join(r, "Cargo.toml"), "w").write(toml)
        env = dict(os.environ)
        env["CARGO_NET_OFFLINE"] = "true"
        env["CARGO_TARGET_DIR"] = os.path.join(tmp, "target")
        env.pop("RUSTFLAGS", None)
        cmd = ["cargo", "+nightly", "rustc", "--offline", "--lib", "--features", "tls,sni", "--", "-Zunpretty=mir", "-C", "debug-assertions=on", "-C", "overflow-checks=on"]
        t0 = time.time()
        with open(os.path.join(tmp, "mir.txt"), "w") as out:
            p = subprocess.run(cmd, cwd=r, env=env, stdout=out, stderr=subprocess.PIPE, text=True)
        with open(log, "a") as lf:
            lf.write("$ " + " ".join(cmd) + f"   ({time.time() - t0:.0f}s)\n" + p.stderr[-3000:] + "\n")
        if p.returncode != 0 or os.path.getsize(os.path.join(tmp, "mir.txt")) < 100000:
            raise RuntimeError("MIR dump failed (does /repo compile?):\n" + p.stderr[-2000:])
        os.makedirs(d, exist_ok=True)
        shutil.move(os.path.join(tmp, "mir.txt"), mir)
        if os.path.exists(os.path.join(d, "repo")):
            shutil.rmtree(os.path.join(d, "repo"))
        shutil.copytree(os.path.join(r, "src"), os.path.join(d, "repo", "src"))
        # keep the cache small: drop other digests, but never one that a concurrent check may still be
        # reading (younger than two hours) and keep the eight most recent in any case
        others = sorted((o for o in os.listdir(CACHE) if o != dig), key=lambda o: -os.path.getmtime(os.path.join(CACHE, o)))
        for other in others[8:]:
            if time.time() - os.path.getmtime(os.path.join(CACHE, other)) > 7200:
                shutil.rmtree(os.path.join(CACHE, other), ignore_errors=True)
        return mir, os.path.join(d, "repo", "src")
    finally:
        shutil.rmtree(tmp, ignore_errors=True)


def _die_with_parent():
    # the executor must not outlive a killed check (PR_SET_PDEATHSIG = 1, SIGKILL = 9)
    try:
        import ctypes
        ctypes.CDLL("libc.so.6").prctl(1, 9, 0, 0, 0)
    except Exception:
        pass


def run(pid, tier, seed, log):
    """-> list of result dicts (see mirsym/run.py), plus the model table"""
    try:
        mir, src = build_mir(log)
    except Exception as e:  # noqa
        return [{"name": f"{pid}_mir_build", "family": "mir_build", "status": "inconclusive", "reason": str(e)[:1500], "engine": "mirsym"}], {}
    out = tempfile.mktemp(prefix="hdverif-mirsym-", suffix=".json")
    env = dict(os.environ)
    env["VERIF_SEED"] = str(seed)
    import nativebuild
    exe = nativebuild.ensure_replay(log, features="sni")
    if exe:
        env["VERIF_NATIVE_REPLAY"] = exe
    env["VERIF_REPLAY_DIR"] = os.path.join(VERIF, "replay", pid)
    os.makedirs(env["VERIF_REPLAY_DIR"], exist_ok=True)
    cmd = ["python3-vt", os.path.join(VERIF, "mirsym", "run.py"), pid, tier, mir, src, out]
    p = subprocess.run(cmd, capture_output=True, text=True, env=env, preexec_fn=_die_with_parent)
    with open(log, "a") as lf:
        lf.write("$ " + " ".join(cmd) + "\n" + p.stdout[-20000:] + p.stderr[-5000:] + "\n")
    if not os.path.exists(out):
        return [{"name": f"{pid}_mirsym", "family": "mirsym", "status": "inconclusive", "reason": "mirsym crashed: " + p.stderr[-1500:], "engine": "mirsym"}], {}
    d = json.load(open(out))
    os.unlink(out)
    return d["results"], d.get("model_table", {})


def replay(pid, path, log):
    import nativebuild
    mir, src = build_mir(log)
    env = dict(os.environ)
    exe = nativebuild.ensure_replay(log, features="sni")
    if exe:
        env["VERIF_NATIVE_REPLAY"] = exe
    p = subprocess.run(["python3-vt", os.path.join(VERIF, "mirsym", "run.py"), "--replay", pid, path, mir, src], env=env, capture_output=True, text=True)
    print(p.stdout[-3000:], p.stderr[-1500:])
    return p.returncode
