#!/bin/bash
# runs every claimed property's thorough tier once, sequentially; summary on stdout.
# With VP_RUN_REPO set (vp run --with-repo) the checks run against that snapshot of the repository.
cd "$(dirname "$0")/.."
[ -n "$VP_RUN_REPO" ] && export VERIF_REPO="$VP_RUN_REPO"
for p in C02 C03 C04 C05 C06 C07 C08 C09 C10 C11 C12 C13 C14 C15 C16 C17 C18 C19 C20; do
  s=$(date +%s)
  ./check $p --tier thorough > /tmp/sweep-$p.txt 2>&1; rc=$?
  e=$(date +%s)
  echo "$p exit=$rc wall=$((e-s))s $(tail -1 /tmp/sweep-$p.txt)"
  grep -E "VIOLATION|UNCONFIRMED|INCONCLUSIVE" /tmp/sweep-$p.txt | cut -c1-300 | head -5
done
echo SWEEPDONE
