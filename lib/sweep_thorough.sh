#!/bin/bash
# runs every claimed property's thorough tier once, in two lanes (8 workers each); summary on stdout.
# With VP_RUN_REPO set (vp run --with-repo) the checks run against that snapshot of the repository.
cd "$(dirname "$0")/.."
[ -n "$VP_RUN_REPO" ] && export VERIF_REPO="$VP_RUN_REPO"
export VERIF_JOBS=${VERIF_JOBS:-8}
lane() {
  for p in "$@"; do
    s=$(date +%s)
    ./check $p --tier thorough > /tmp/sweep-$p.txt 2>&1; rc=$?
    e=$(date +%s)
    echo "$p exit=$rc wall=$((e-s))s $(tail -1 /tmp/sweep-$p.txt)"
    grep -E "VIOLATION|UNCONFIRMED|INCONCLUSIVE" /tmp/sweep-$p.txt | cut -c1-300 | head -5
  done
}
# the tiers that changed most recently first
lane C15 C19 C05 C04 C09 C10 C14 C03 C07 C02 C12 C13 &
lane C18 C16 C17 C20 C11 C06 C08 &
wait
echo SWEEPDONE
