#!/bin/bash
# usage: seedcheck.sh <seed dir name under /verif/seeded> <PROP> [patch file name]
# Re-runs only the check part for an already confirmed seeded change and records the outcome in its meta.json.
set -u
ID=$1; PID=$2; PATCH=${3:-patch.diff}
OUT=/verif/seeded/$ID
cd /repo && git apply $OUT/$PATCH || { echo "PATCH DOES NOT APPLY TO /repo"; exit 3; }
cd /verif && ./check $PID --tier quick > $OUT/check_quick.log 2>&1; RC=$?
git -C /repo checkout -- .
tail -4 $OUT/check_quick.log
python3 - <<PY
import json
p="$OUT/meta.json"
m=json.load(open(p))
c=m.get("check",{})
if "exit" in c and c.get("exit")!=$RC:
    c.setdefault("history",[]).append({"exit":c.get("exit"),"detected":c.get("detected")})
c.update({"cmd":"./check $PID --tier quick","exit":$RC,"detected": $RC==1})
m["check"]=c
json.dump(m,open(p,"w"),indent=1)
PY
echo "check_exit=$RC"
